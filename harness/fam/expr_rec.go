package fam

import (
	"flag"
	"fmt"
	"math"
	"math/big"
	"math/rand"
	"os"
	"strconv"
	"strings"

	formula "github.com/aundis/formula"

	"github.com/ericlagergren/decimal"

	"verif/harness/data"
	"verif/harness/proj"
	"verif/harness/tlaval"
)

func init() { Recorders["expr"] = recordExpr }

// f64Parts: exact (neg, mantissa digits, binary exponent) of a float64; nil for NaN / Inf.
func f64Parts(f float64) []any {
	if math.IsNaN(f) || math.IsInf(f, 0) {
		return []any{}
	}
	if f == 0 {
		return []any{math.Signbit(f), []any{}, 0}
	}
	frac, exp := math.Frexp(math.Abs(f))
	m := int64(frac * (1 << 53))
	ds := []any{}
	for _, c := range strconv.FormatInt(m, 10) {
		ds = append(ds, int64(c-'0'))
	}
	return []any{f < 0, ds, exp - 53}
}

// ExprEvent evaluates text against the described data and records tree, exact outcome and float64.
func ExprEvent(text string, desc map[string]any, site string) (map[string]any, error) {
	h := &HostLog{}
	dm, err := data.BuildMap(desc, h)
	if err != nil {
		return nil, err
	}
	ev := map[string]any{"ev": "expr", "input": text, "text": text, "data": desc, "site": site, "f64": []any{}}
	obsP, src := ParseObserve(text)
	pt, _ := obsP.([]any)
	if len(pt) != 2 || pt[0] != "OK" {
		return nil, fmt.Errorf("generator produced a text the parser rejects: %q", text)
	}
	ev["tree"] = pctSafe(pt[1])
	r := formula.NewRunner()
	r.SetThis(dm)
	t := ResolveTop(r, src.Expression)
	log := append([]any{}, h.Log...)
	switch {
	case t.Panic != nil:
		ev["out"] = []any{"PANIC", fmt.Sprint(t.Panic)}
	case t.Err != nil && t.HasBoth:
		ev["out"] = []any{"BROKEN", "value with error"}
	case t.Err != nil:
		ev["out"] = []any{"err", log}
	case !t.RootOK:
		ev["out"] = []any{"BROKEN", "root not observed"}
	default:
		ev["out"] = []any{"ok", proj.Value(t.Root), log}
		if f, ok := t.Val.(float64); ok {
			ev["f64"] = f64Parts(f)
		}
	}
	return ev, nil
}

func randDigits(rng *rand.Rand, n int) string {
	var sb strings.Builder
	sb.WriteByte(byte('1' + rng.Intn(9)))
	for i := 1; i < n; i++ {
		sb.WriteByte(byte('0' + rng.Intn(10)))
	}
	return sb.String()
}

// randLiteral: a decimal literal with 1..maxDigits significant digits and exponent within +-maxExp,
// biased towards short values, ties (trailing 5) and runs of 9s.
func randLiteral(rng *rand.Rand, maxDigits, maxExp int) string {
	n := 1 + rng.Intn(maxDigits)
	if rng.Intn(3) == 0 {
		n = 1 + rng.Intn(4)
	}
	ds := randDigits(rng, n)
	switch rng.Intn(6) {
	case 0:
		ds = strings.Repeat("9", n)
	case 1:
		ds = ds[:n-1] + "5"
	}
	e := rng.Intn(2*maxExp+1) - maxExp
	switch rng.Intn(3) {
	case 0:
		return ds + "e" + strconv.Itoa(e)
	case 1:
		if n > 1 {
			p := 1 + rng.Intn(n-1)
			return ds[:p] + "." + ds[p:] + "e" + strconv.Itoa(e)
		}
		return ds + "e" + strconv.Itoa(e)
	default:
		if e < 0 && -e < 20 {
			return "0." + strings.Repeat("0", -e-1+rng.Intn(1)) + ds
		}
		return ds + "e" + strconv.Itoa(e)
	}
}

func signed(rng *rand.Rand, lit string) string {
	if rng.Intn(2) == 0 {
		return "(-" + lit + ")"
	}
	return lit
}

func recordExpr(args []string) int {
	fs := flag.NewFlagSet("expr", flag.ExitOnError)
	out := fs.String("out", "", "output ndjson")
	seed := fs.Int64("seed", 1, "seed")
	n := fs.Int("n", 500, "number of events")
	mode := fs.String("mode", "arith", "arith | num1")
	one := fs.String("one", "", "re-execute this event")
	fs.Parse(args)
	var evs []map[string]any
	add := func(text string, desc map[string]any, site string) bool {
		ev, err := ExprEvent(text, desc, site)
		if err != nil {
			fmt.Fprintln(os.Stderr, err)
			return false
		}
		if rootIsRemainder(ev["tree"]) {
			addWitness(ev)
		}
		evs = append(evs, ev)
		return true
	}
	if *one != "" {
		e, err := readEvent(*one)
		if err != nil {
			fmt.Fprintln(os.Stderr, err)
			return 2
		}
		desc, _ := jsonToVal(e["data"]).(map[string]any)
		if desc == nil {
			desc = map[string]any{}
		}
		if !add(fmt.Sprint(e["text"]), desc, fmt.Sprint(e["site"])) {
			return 2
		}
	} else {
		rng := rand.New(rand.NewSource(*seed))
		ops := []string{"+", "-", "*", "/", "%"}
		for i := 0; i < *n; i++ {
			switch *mode {
			case "arith":
				if rng.Intn(6) == 0 {
					// a result of at most 15 significant digits whose coefficient is padded with trailing zeros to 16-19
					// digits (above 2^53): the float64 handed back must still be the nearest one
					d := 8 + rng.Intn(8)
					ds := make([]byte, d)
					for k := range ds {
						ds[k] = byte('0' + rng.Intn(10))
					}
					ds[0], ds[d-1] = byte('1'+rng.Intn(9)), byte('1'+rng.Intn(9))
					p := 1 + rng.Intn(d-1)
					a := string(ds[:p]) + "." + string(ds[p:])
					z := strings.Repeat("0", 16-d+rng.Intn(4))
					text := []string{"(" + a + " * 1." + z + ")", "(" + a + " + 0." + z + ")", "(" + a + z + " - 0)", "(" + a + " - 0." + z + "0)"}[rng.Intn(4)]
					if !add(text, map[string]any{}, "arith:padded") {
						return 2
					}
					continue
				}
				op := ops[rng.Intn(len(ops))]
				k := 1
				if rng.Intn(4) == 0 {
					k = 2 + rng.Intn(3) // chains of up to 4 operators
				}
				text := signed(rng, randLiteral(rng, 34, 30))
				site := "arith:" + op
				for j := 0; j < k; j++ {
					o := ops[rng.Intn(3)] // inner operators: + - *
					if j == k-1 {
						o = op // the root may be any of the five
					}
					b := signed(rng, randLiteral(rng, 34, 30))
					if o == "/" || o == "%" {
						for strings.Trim(b, "(-)0.e") == "" {
							b = signed(rng, randLiteral(rng, 34, 30))
						}
					}
					text = "(" + text + " " + o + " " + b + ")"
				}
				if !add(text, map[string]any{}, site) {
					return 2
				}
			case "short":
				// short decimals (at most 8 significant digits, 6-10 decimal places): the float64 handed back must be the
				// nearest one; about one value in 2^11 sits where a conversion that rounds twice goes wrong
				d := 1 + rng.Intn(19999999)
				k := 6 + rng.Intn(5)
				ds := strconv.Itoa(d)
				for len(ds) <= k {
					ds = "0" + ds
				}
				text := ds[:len(ds)-k] + "." + ds[len(ds)-k:]
				if rng.Intn(4) == 0 {
					text = "(" + strconv.Itoa(d) + " / 1" + strings.Repeat("0", k) + ")"
				}
				if !add(text, map[string]any{}, "arith:short") {
					return 2
				}
			case "prog":
				if !recordProg(rng, *n, add) {
					return 2
				}
				i = *n
			case "data":
				// float64 / int64 / int data against arithmetic with literals
				var desc map[string]any
				switch rng.Intn(3) {
				case 0:
					f := math.Float64frombits(rng.Uint64())
					for math.IsNaN(f) || math.IsInf(f, 0) || math.Abs(f) > 1e60 || (f != 0 && math.Abs(f) < 1e-60) {
						f = math.Float64frombits(rng.Uint64())
					}
					if rng.Intn(2) == 0 {
						f = float64(rng.Intn(2000)-1000) / []float64{1, 10, 100, 1000, 3, 7}[rng.Intn(6)]
					}
					desc = map[string]any{"x": f64Desc(f)}
				case 1:
					v := rng.Int63()
					if rng.Intn(2) == 0 {
						v = -v
					}
					if rng.Intn(3) == 0 {
						v = (int64(1) << 53) + int64(rng.Intn(9)-4)
					}
					neg := v < 0
					s := strconv.FormatInt(v, 10)
					s = strings.TrimPrefix(s, "-")
					ds := []any{}
					for _, c := range s {
						ds = append(ds, int64(c-'0'))
					}
					desc = map[string]any{"x": []any{"int64", neg, ds}}
				default:
					desc = map[string]any{"x": []any{"int", int64(rng.Intn(2000001) - 1000000)}}
				}
				forms := []string{"x", "x + 0", "x * 1", "x - " + randLiteral(rng, 10, 5), "[x]", "x / 1"}
				if !add(forms[rng.Intn(len(forms))], desc, "arith:data") {
					return 2
				}
			}
		}
	}
	if err := writeEvents(*out, evs); err != nil {
		fmt.Fprintln(os.Stderr, err)
		return 2
	}
	return 0
}

// f64Desc: the description <<"f64", neg, digits, exp>> of a float64 (the decimal it prints as).
func f64Desc(f float64) []any {
	s := strconv.FormatFloat(math.Abs(f), 'e', -1, 64) // d.ddddde±xx
	mant, exps, _ := strings.Cut(s, "e")
	e, _ := strconv.Atoi(exps)
	digits := strings.Replace(mant, ".", "", 1)
	e -= len(digits) - 1
	t := strings.TrimRight(digits, "0")
	e += len(digits) - len(t)
	t = strings.TrimLeft(t, "0")
	ds := []any{}
	for _, c := range t {
		ds = append(ds, int64(c-'0'))
	}
	if len(ds) == 0 {
		return []any{"f64", math.Signbit(f), []any{}, int64(0)}
	}
	return []any{"f64", f < 0, ds, int64(e)}
}

// pctSafe renames the operator "%" to "pct" inside a projected tree (a percent sign in a TLC
// message can break its formatting); Trace_Expr knows the name.
func pctSafe(t any) any {
	tt, ok := t.([]any)
	if !ok {
		return t
	}
	out := make([]any, len(tt))
	for i, e := range tt {
		out[i] = pctSafe(e)
	}
	if len(out) == 4 && out[0] == "Bin" && out[1] == "%" {
		out[1] = "pct"
	}
	return out
}

// addWitness logs, for a remainder at the root, the integer quotient trunc(a / b) of the operands'
// observed values, computed with math/big; TLC verifies a = w*b + r (Trace_Expr.DivOK).
func addWitness(ev map[string]any) {
	ev["wit"] = []any{false, []any{}}
	text, _ := ev["text"].(string)
	src, err := formula.ParseSourceCode([]byte(text))
	if err != nil {
		return
	}
	e := src.Expression
	if p, ok := e.(*formula.ParenthesizedExpression); ok {
		e = p.Expression
	}
	b, ok := e.(*formula.BinaryExpression)
	if !ok {
		return
	}
	desc, _ := ev["data"].(map[string]any)
	val := func(x formula.Expression) *big.Rat {
		run := formula.NewRunner()
		if dm, err := data.BuildMap(desc, &HostLog{}); err == nil {
			run.SetThis(dm)
		}
		t := ResolveTop(run, x)
		d, ok := t.Root.(*decimal.Big)
		if !ok || !t.RootOK || !d.IsFinite() {
			return nil
		}
		r, ok := new(big.Rat).SetString(d.String())
		if !ok {
			return nil
		}
		return r
	}
	x, y := val(b.Left), val(b.Right)
	if x == nil || y == nil || y.Sign() == 0 {
		return
	}
	q := new(big.Rat).Quo(x, y)
	w := new(big.Int).Quo(q.Num(), q.Denom()) // truncation toward zero
	ds := []any{}
	for _, c := range new(big.Int).Abs(w).String() {
		ds = append(ds, int64(c-'0'))
	}
	if w.Sign() == 0 {
		ds = []any{}
	}
	ev["wit"] = []any{w.Sign() < 0, ds}
}

// ---- random programs (mode "prog"): grammar-directed, every operator, builtin and value kind

var progDataDesc = mustParse(`[ i |-> <<"int", 2>>, j |-> <<"int", -7>>, f |-> <<"f64", FALSE, <<1,5>>, -1>>, d |-> <<"dec", FALSE, <<1,2,5>>, -2>>, z |-> <<"int", 0>>,
  s |-> <<"str", <<97,98>>>>, e |-> <<"str", <<>>>>, w |-> <<"str", <<32,97,32>>>>, b |-> <<"bool", TRUE>>, nb |-> <<"bool", FALSE>>, nl |-> <<"nil">>, np |-> <<"nilptr">>,
  m |-> <<"map", [k |-> <<"int", 1>>, s |-> <<"str", <<120>>>>, n |-> <<"nil">>, m |-> <<"map", [k |-> <<"int", 5>>]>>]>>, tm |-> <<"tmapint", [z |-> 0, o |-> 1]>>,
  st |-> <<"struct", [A |-> <<"int", 1>>, B |-> <<"str", <<98>>>>, N |-> <<"nilptr">>, P |-> <<"int", 3>>], <<"c">>>>,
  sl |-> <<"slice", <<<<"int", 1>>, <<"str", <<98>>>>, <<"nil">>>>>>, ss |-> <<"strs", <<<<97>>, <<98>>>>>>, t |-> <<"time", 19000, 3600000, 0>>,
  rec |-> <<"func", "rec">>, fail |-> <<"func", "fail">>, failv |-> <<"func", "failv">>, add2 |-> <<"func", "add2">>, cat |-> <<"func", "cat">>, recs |-> <<"func", "recs">>,
  nan |-> <<"f64nan">>, inf |-> <<"f64inf", FALSE>>, crec |-> <<"func", "crec">>, cstr |-> <<"func", "cstr">> ]`)

var progNames = []string{"i", "j", "f", "d", "z", "s", "e", "w", "b", "nb", "nl", "np", "m", "tm", "st", "sl", "ss", "t", "nan", "inf", "undefined", "$a", "$b"}
var progBinOps = []string{"+", "-", "*", "<", ">", "<=", ">=", "==", "!=", "===", "!==", "&", "|", "^", "&&", "||", "??", "+", "===", "&&", "||"}
var progBuiltins = []struct {
	name string
	ar   int
}{{"abs", 1}, {"ceil", 1}, {"floor", 1}, {"round", 1}, {"roundBank", 1}, {"max", 2}, {"min", 3}, {"finite", 1}, {"toInt", 1}, {"toFloat", 1}, {"toString", 1},
	{"startWith", 2}, {"endWith", 2}, {"contains", 2}, {"find", 2}, {"left", 2}, {"right", 2}, {"mid", 3}, {"len", 1}, {"lower", 1}, {"upper", 1}, {"trim", 1},
	{"replace", 3}, {"lpad", 3}, {"rpad", 3}, {"includes", 2}, {"join", 2}, {"regexp", 2}, {"date", 3}, {"year", 1}, {"month", 1}, {"day", 1}, {"weekDay", 1},
	{"addDate", 4}, {"millSecond", 1}, {"timeFormat", 2}, {"rec", 1}, {"fail", 1}, {"failv", 1}, {"add2", 2}, {"cat", 2}, {"recs", 2}, {"mapToArr", 2}, {"roundCash", 2}, {"crec", 1}, {"cstr", 1}, {"crec", 1}}

type progGen struct {
	rng    *rand.Rand
	divs   int
	assign int
	arith  bool // numeric profile: long literals, wide exponents, arithmetic and numeric builtins
}

// numLit: a random decimal literal of 1..34 significant digits, optional fraction and exponent.
func (g *progGen) numLit() string {
	n := 1 + g.rng.Intn(8)
	switch g.rng.Intn(6) {
	case 0:
		n = 28 + g.rng.Intn(7) // at most 34 significant digits: the domain of C04 (longer literals are C12's)
	case 1:
		n = 14 + g.rng.Intn(8)
	}
	ds := make([]byte, n)
	for k := range ds {
		ds[k] = byte('0' + g.rng.Intn(10))
		if g.rng.Intn(5) == 0 {
			ds[k] = "0959"[g.rng.Intn(4)]
		}
	}
	if ds[0] == '0' && n > 1 {
		ds[0] = '1'
	}
	s := string(ds)
	if g.rng.Intn(2) == 0 {
		p := g.rng.Intn(n + 1)
		if p == 0 {
			s = "0." + s
		} else if p < n {
			s = s[:p] + "." + s[p:]
		}
	}
	if g.rng.Intn(3) == 0 {
		s += "e" + []string{"", "-", "+"}[g.rng.Intn(3)] + strconv.Itoa(g.rng.Intn(41))
	}
	return s
}

func (g *progGen) genArith(depth int) string {
	if depth <= 0 || g.rng.Intn(6) == 0 {
		if g.rng.Intn(10) < 7 {
			return g.numLit()
		}
		return []string{"i", "j", "f", "d", "z", "$a", "$b", "inf", "nan"}[g.rng.Intn(9)]
	}
	sub := func() string { return g.genArith(depth - 1) }
	switch k := g.rng.Intn(20); {
	case k < 9:
		return "(" + sub() + " " + []string{"+", "-", "*", "+", "-", "*", "*"}[g.rng.Intn(7)] + " " + sub() + ")"
	case k < 12:
		return "(" + sub() + " " + []string{"/", "%"}[g.rng.Intn(2)] + " " + sub() + ")"
	case k < 13:
		return "-(" + sub() + ")"
	case k < 16:
		b := []struct {
			name string
			ar   int
		}{{"abs", 1}, {"ceil", 1}, {"floor", 1}, {"round", 1}, {"roundBank", 1}, {"max", 2}, {"min", 3}, {"toInt", 1}, {"toFloat", 1}, {"finite", 1}}[g.rng.Intn(10)]
		args := []string{}
		for k := 0; k < b.ar; k++ {
			args = append(args, sub())
		}
		return b.name + "(" + strings.Join(args, ", ") + ")"
	case k < 17:
		return "(" + sub() + " " + []string{"<", ">", "<=", ">=", "==", "===", "!="}[g.rng.Intn(7)] + " " + sub() + ")"
	case k < 18:
		return "(" + sub() + " ? " + sub() + " : " + sub() + ")"
	case k < 19:
		g.assign++
		return "(" + []string{"$a", "$b"}[g.rng.Intn(2)] + " = " + sub() + ", " + sub() + ")"
	default:
		return "[" + sub() + ", " + sub() + "]"
	}
}

func (g *progGen) lit() string {
	switch g.rng.Intn(9) {
	case 0:
		return strconv.Itoa(g.rng.Intn(10))
	case 1:
		return fmt.Sprintf("%d.%d", g.rng.Intn(100), g.rng.Intn(100))
	case 2:
		return []string{"'ab'", "''", "'a'", "'b'", "'x'", "' a '", "'2006-01-02'", "'ab|c'", "'^(a)*$'", "'UTC'"}[g.rng.Intn(10)]
	case 3:
		return []string{"true", "false", "null"}[g.rng.Intn(3)]
	case 4:
		return []string{"0.5", "2.5", "1e3", "0.1", "100"}[g.rng.Intn(5)]
	default:
		return progNames[g.rng.Intn(len(progNames))]
	}
}

func (g *progGen) gen(depth int) string {
	if g.arith {
		return g.genArith(depth)
	}
	if depth <= 0 || g.rng.Intn(5) == 0 {
		return g.lit()
	}
	sub := func() string { return g.gen(depth - 1) }
	switch g.rng.Intn(14) {
	case 0, 1, 2:
		op := progBinOps[g.rng.Intn(len(progBinOps))]
		return "(" + sub() + " " + op + " " + sub() + ")"
	case 3:
		if g.divs == 0 {
			g.divs++
			return "(" + sub() + " " + []string{"/", "%"}[g.rng.Intn(2)] + " " + g.lit() + ")"
		}
		return "(" + sub() + " * " + sub() + ")"
	case 4:
		return []string{"-", "!", "!!", "+", "~", "typeof "}[g.rng.Intn(6)] + "(" + sub() + ")"
	case 5:
		return "(" + sub() + " ? " + sub() + " : " + sub() + ")"
	case 6:
		g.assign++
		return "(" + []string{"$a", "$b"}[g.rng.Intn(2)] + " = " + sub() + ")"
	case 7:
		return "(" + sub() + ", " + sub() + ")"
	case 8:
		n := g.rng.Intn(3)
		parts := []string{}
		for k := 0; k <= n; k++ {
			parts = append(parts, sub())
		}
		return "[" + strings.Join(parts, ", ") + "]"
	case 9:
		base := []string{"m", "tm", "st", "np", "nl", "this", "m.m", "undefined", "s", "sl", "z", "e", "nb", "i", "t", "m.k"}[g.rng.Intn(16)]
		return base + []string{".", "!."}[g.rng.Intn(2)] + []string{"k", "s", "n", "z", "A", "B", "N", "q", "m"}[g.rng.Intn(9)]
	default:
		b := progBuiltins[g.rng.Intn(len(progBuiltins))]
		ar := b.ar
		if g.rng.Intn(6) == 0 {
			ar += g.rng.Intn(3) - 1
		}
		args := []string{}
		for k := 0; k < ar; k++ {
			args = append(args, sub())
		}
		sp := ""
		if g.rng.Intn(12) == 0 && ar > 0 {
			sp = "..."
		}
		return b.name + "(" + strings.Join(args, ", ") + sp + ")"
	}
}

func recordProg(rng *rand.Rand, n int, add func(text string, desc map[string]any, site string) bool) bool {
	desc, _ := tlaval.AsMap(progDataDesc)
	for i := 0; i < n; {
		g := &progGen{rng: rng}
		text := g.gen(2 + rng.Intn(3))
		if len(text) > 400 {
			continue
		}
		if _, err := formula.ParseSourceCode([]byte(text)); err != nil {
			continue
		}
		head := text
		if len(head) > 12 {
			head = head[:12]
		}
		if !add(text, desc, "prog") {
			return false
		}
		i++
	}
	return true
}

func rootIsRemainder(t any) bool {
	tt, ok := t.([]any)
	for ok && len(tt) == 2 && tt[0] == "Paren" {
		tt, ok = tt[1].([]any)
	}
	return ok && len(tt) == 4 && tt[0] == "Bin" && tt[1] == "pct"
}
