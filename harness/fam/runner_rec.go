package fam

import (
	"bufio"
	"context"
	"encoding/json"
	"flag"
	"fmt"
	"math/rand"
	"os"
	"reflect"
	"sort"

	formula "github.com/aundis/formula"

	"verif/harness/proj"
	"verif/harness/tlaval"
)

var builtinNames = []string{"now", "toDay", "date", "addDate", "year", "month", "day", "hour", "minute", "second", "millSecond", "weekDay", "timeFormat",
	"useTimezone", "abs", "ceil", "exp", "floor", "ln", "log", "max", "min", "round", "roundBank", "roundCash", "sqrt", "finite", "startWith", "endWith",
	"contains", "find", "includes", "left", "right", "len", "lower", "upper", "lpad", "rpad", "mid", "replace", "trim", "regexp", "mapToArr", "join",
	"toString", "toInt", "toFloat"}

func init() {
	Recorders["runner"] = recordRunner
	// host function values project by name in recorded traces
	h := &HostLog{}
	for _, n := range []string{"rec", "id", "fail", "failv", "recs", "add2", "cat", "crec", "cstr"} {
		f, _ := h.Func(n)
		proj.FuncNames[reflect.ValueOf(f).Pointer()] = n
	}
	// builtins project by name too: a bare builtin name evaluates to the function itself
	for _, n := range builtinNames {
		src, err := formula.ParseSourceCode([]byte(n))
		if err != nil {
			continue
		}
		v, err := formula.NewRunner().Resolve(context.Background(), src.Expression)
		if err == nil && v != nil && reflect.TypeOf(v).Kind() == reflect.Func {
			proj.FuncNames[reflect.ValueOf(v).Pointer()] = n
		}
	}
}

// writeEvents writes one JSON object per line.
func writeEvents(path string, evs []map[string]any) error {
	f, err := os.Create(path)
	if err != nil {
		return err
	}
	w := bufio.NewWriterSize(f, 1<<20)
	enc := json.NewEncoder(w)
	enc.SetEscapeHTML(false)
	for i, e := range evs {
		// TLC integers are 32 bits wide and its JSON reader wraps silently: refuse to write what it would misread
		if k := outOfTLCRange(e); k != "" {
			return fmt.Errorf("event %d: integer outside TLC's 32-bit range at %q", i, k)
		}
		if err := enc.Encode(emptyMapsAsLists(e)); err != nil {
			return err
		}
	}
	if err := w.Flush(); err != nil {
		return err
	}
	return f.Close()
}

func outOfTLCRange(v any) string {
	bad := func(n int64) bool { return n > 2147483647 || n < -2147483648 }
	switch x := v.(type) {
	case int64:
		if bad(x) {
			return "."
		}
	case int:
		if bad(int64(x)) {
			return "."
		}
	case uint64:
		if x > 2147483647 {
			return "."
		}
	case float64, float32:
		return ". (floating point)"
	case map[string]any:
		for k, y := range x {
			if r := outOfTLCRange(y); r != "" {
				return k + "/" + r
			}
		}
	case []any:
		for _, y := range x {
			if r := outOfTLCRange(y); r != "" {
				return r
			}
		}
	default:
		rv := reflect.ValueOf(v)
		switch rv.Kind() {
		case reflect.Slice, reflect.Array:
			for i := 0; i < rv.Len(); i++ {
				if r := outOfTLCRange(rv.Index(i).Interface()); r != "" {
					return r
				}
			}
		case reflect.Map:
			for _, k := range rv.MapKeys() {
				if r := outOfTLCRange(rv.MapIndex(k).Interface()); r != "" {
					return fmt.Sprint(k) + "/" + r
				}
			}
		case reflect.Int, reflect.Int8, reflect.Int16, reflect.Int32, reflect.Int64:
			if bad(rv.Int()) {
				return "."
			}
		case reflect.Uint, reflect.Uint8, reflect.Uint16, reflect.Uint32, reflect.Uint64:
			if rv.Uint() > 2147483647 {
				return "."
			}
		}
	}
	return ""
}

func readEvent(path string) (map[string]any, error) {
	b, err := os.ReadFile(path)
	if err != nil {
		return nil, err
	}
	var e map[string]any
	dec := json.NewDecoder(bytesReader(b))
	dec.UseNumber()
	if err := dec.Decode(&e); err != nil {
		return nil, err
	}
	return e, nil
}

// jsonToVal converts decoded JSON (UseNumber) into the harness value form.
func jsonToVal(v any) any {
	switch x := v.(type) {
	case json.Number:
		n, _ := x.Int64()
		return n
	case []any:
		out := make([]any, len(x))
		for i, e := range x {
			out[i] = jsonToVal(e)
		}
		return out
	case map[string]any:
		out := make(map[string]any, len(x))
		for k, e := range x {
			out[k] = jsonToVal(e)
		}
		return out
	}
	return v
}

// recordRunner: random long histories over the alphabet of MC_Runner, concatenated with
// reset events. -one <event.json> re-executes the history that contains a failing event
// (the event carries its history as "hist").
func recordRunner(args []string) int {
	fs := flag.NewFlagSet("runner", flag.ExitOnError)
	out := fs.String("out", "", "output ndjson")
	seed := fs.Int64("seed", 1, "seed")
	nh := fs.Int("histories", 50, "number of histories")
	hl := fs.Int("len", 100, "operations per history")
	one := fs.String("one", "", "re-execute the history of this event")
	fs.Parse(args)
	f := &runnerFam{}
	exprs, err := f.exprs()
	if err != nil {
		fmt.Fprintln(os.Stderr, err)
		return 2
	}
	var evs []map[string]any
	runHistory := func(ops [][]any) error {
		w, err := NewRunnerWorld(runnerHeapDesc, []string{"r1", "r2"}, []string{"k", "x"})
		if err != nil {
			return err
		}
		evs = append(evs, map[string]any{"ev": "reset"})
		var hist []any
		for _, op := range ops {
			res, d, err := w.ApplyOp(op, exprs)
			if err != nil {
				return err
			}
			hist = append(hist, op)
			evs = append(evs, map[string]any{"ev": "op", "op": op, "res": res, "st": w.Project(), "input": d,
				"site": "runner:" + fmt.Sprint(op[0]), "hist": append([]any{}, hist...)})
		}
		return nil
	}
	if *one != "" {
		e, err := readEvent(*one)
		if err != nil {
			fmt.Fprintln(os.Stderr, err)
			return 2
		}
		h, _ := jsonToVal(e["hist"]).([]any)
		ops := make([][]any, len(h))
		for i, o := range h {
			ops[i], _ = o.([]any)
		}
		if err := runHistory(ops); err != nil {
			fmt.Fprintln(os.Stderr, err)
			return 2
		}
		// only the last event is judged; earlier ones must conform anyway
	} else {
		rng := rand.New(rand.NewSource(*seed))
		runners := []string{"r1", "r2"}
		for h := 0; h < *nh; h++ {
			var ops [][]any
			for i := 0; i < *hl; i++ {
				r := runners[rng.Intn(2)]
				switch rng.Intn(10) {
				case 0:
					ops = append(ops, []any{"SetThis", r, []string{"m1", "m2", "m3", "nil"}[rng.Intn(4)]})
				case 1:
					ops = append(ops, []any{"SetThisValue", r, []string{"x", "$a"}[rng.Intn(2)], []any{"int", int64(rng.Intn(4) + 3)}})
				case 2:
					ops = append(ops, []any{"Set", r, []string{"k", "x"}[rng.Intn(2)], []any{"str", []any{int64(48 + rng.Intn(10))}}})
				case 3:
					ops = append(ops, []any{"Get", r, []string{"k", "x"}[rng.Intn(2)]})
				default:
					ops = append(ops, []any{"Resolve", r, int64(rng.Intn(len(exprs)) + 1)})
				}
			}
			if err := runHistory(ops); err != nil {
				fmt.Fprintln(os.Stderr, err)
				return 2
			}
		}
	}
	if err := writeEvents(*out, evs); err != nil {
		fmt.Fprintln(os.Stderr, err)
		return 2
	}
	return 0
}

// emptyMapsAsLists: TLC reads {} as an empty record and [] as the empty tuple; both are the
// empty function in TLA+, but they serialise differently, so empty maps are written as [].
func emptyMapsAsLists(v any) any {
	switch x := v.(type) {
	case map[string]any:
		if len(x) == 0 {
			return []any{}
		}
		out := make(map[string]any, len(x))
		for k, e := range x {
			out[k] = emptyMapsAsLists(e)
		}
		return out
	case []any:
		out := make([]any, len(x))
		for i, e := range x {
			out[i] = emptyMapsAsLists(e)
		}
		return out
	case tlaval.Set: // JSON has no sets: a sorted array (ToJson of a TLA+ set is an array too)
		strs := make([]string, len(x.Elems))
		byStr := map[string]any{}
		for i, e := range x.Elems {
			strs[i] = tlaval.Format(e)
			byStr[strs[i]] = e
		}
		sort.Strings(strs)
		out := make([]any, len(strs))
		for i, k := range strs {
			out[i] = emptyMapsAsLists(byStr[k])
		}
		return out
	}
	return v
}
