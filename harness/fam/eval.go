package fam

import (
	"context"
	"errors"
	"fmt"
	"os"
	"sort"
	"strings"
	"sync"
	"time"

	formula "github.com/aundis/formula"

	"verif/harness/data"
	"verif/harness/proj"
	"verif/harness/tlaval"
)

// HostLog is the recording environment of the harness host functions rec, fail, id,
// recs, add2, cat (FBuiltins.tla gives their meaning).
type HostLog struct {
	mu  sync.Mutex
	Log []any
}

func (h *HostLog) add(name string, args ...interface{}) {
	as := make([]any, len(args))
	for i, a := range args {
		as[i] = proj.Value(a)
	}
	h.mu.Lock()
	h.Log = append(h.Log, []any{name, as})
	h.mu.Unlock()
}

func (h *HostLog) Func(name string) (interface{}, bool) {
	switch name {
	case "rec":
		return func(x interface{}) (interface{}, error) { h.add("rec", x); return x, nil }, true
	case "id":
		return func(x interface{}) (interface{}, error) { return x, nil }, true
	case "crec":
		return func(ctx context.Context, x interface{}) (interface{}, error) { h.add("crec", x); return x, nil }, true
	case "cstr":
		return func(ctx context.Context, s fmt.Stringer) (string, error) {
			if s == nil {
				return "", nil
			}
			return s.String(), nil
		}, true
	case "fail":
		return func(x interface{}) (interface{}, error) { h.add("fail", x); return nil, errors.New("host failure") }, true
	case "failv":
		return func(x interface{}) (interface{}, error) {
			h.add("failv", x)
			return -1, errors.New("host failure with a value")
		}, true
	case "recs":
		return func(xs ...interface{}) (interface{}, error) {
			h.add("recs", xs...)
			out := make([]interface{}, len(xs))
			copy(out, xs)
			return out, nil
		}, true
	case "add2":
		return func(a, b int) (int, error) { h.add("add2", a, b); return a + b, nil }, true
	case "cat":
		return func(xs ...string) (string, error) {
			as := make([]interface{}, len(xs))
			s := ""
			for i, x := range xs {
				as[i] = x
				s += x
			}
			h.add("cat", as...)
			return s, nil
		}, true
	}
	return nil, false
}

// Wrap puts an expression into a one-element array literal so that a numeric result keeps
// its decimal (the top-level result of Resolve is converted to float64).
func Wrap(e formula.Expression) formula.Expression {
	l := &formula.NodeList[formula.Expression]{}
	l.Add(e)
	return &formula.ArrayLiteralExpression{Elements: l}
}

var thisExpr formula.Expression

func init() {
	src, err := formula.ParseSourceCode([]byte("this"))
	if err != nil {
		panic(err)
	}
	thisExpr = src.Expression
}

// RunnerState projects the runner's current data map (read through the formula `this`).
func RunnerState(r *formula.Runner) any {
	v, err := safeResolve(r, thisExpr)
	if err != nil {
		return proj.T{"ERR-READING-THIS"}
	}
	p := proj.Value(v)
	if t, ok := p.([]any); ok && len(t) == 2 && t[0] == "map" {
		return t[1]
	}
	return p
}

type panicError struct{ v any }

func (p panicError) Error() string { return fmt.Sprintf("PANIC: %v", p.v) }

func safeResolve(r *formula.Runner, e formula.Expression) (v interface{}, err error) {
	defer func() {
		if x := recover(); x != nil {
			v, err = nil, panicError{x}
		}
	}()
	return r.Resolve(context.Background(), e)
}

// root-node observation through the guarded resolve hook (H2): the exact result of the root
// node before the top-level conversion to float64, keyed by runner so that workers do not
// interfere.
type rootObs struct {
	root  formula.Expression
	res   interface{}
	err   error
	seen  bool
	nodes int
}

var (
	hookOnce  sync.Once
	rootWatch sync.Map // *formula.Runner -> *rootObs
	gateWatch sync.Map // *formula.Runner -> func() blocking gate
)

// the resolve hook is installed before any goroutine of the driver runs (a lazily installed hook would itself
// be a data race between the driver's goroutines)
func init() { installHooks() }

func installHooks() {
	hookOnce.Do(func() {
		nop := func() {}
		formula.VerifResolveHook = func(r *formula.Runner, v formula.Expression, res *interface{}, err *error) func() {
			if g, ok := gateWatch.Load(r); ok {
				g.(func())() // scheduler gate (C09): blocks until this goroutine may pass
			}
			o, ok := rootWatch.Load(r)
			if !ok {
				return nop
			}
			ob := o.(*rootObs)
			ob.nodes++
			if v != ob.root {
				return nop
			}
			return func() { ob.res, ob.err, ob.seen = *res, *err, true }
		}
	})
}

// TopLevel is what the caller of Runner.Resolve sees plus the exact root value.
type TopLevel struct {
	Val     interface{} // value returned by Resolve
	Err     error
	Root    interface{} // exact result of the root node (hook), nil if not observed
	RootOK  bool
	Panic   any
	HasBoth bool // non-nil value together with a non-nil error
}

const evalHangAfter = 120 * time.Second

// HangGuard: a call into the real code that never returns ends the process with a recognisable exit status
// (5, "VERIF-HANG:" on stderr) instead of leaving the check to its outer timeout.
func HangGuard(what string) func() {
	wd := time.AfterFunc(evalHangAfter, func() {
		fmt.Fprintf(os.Stderr, "VERIF-HANG: %s did not return within %v\n", what, evalHangAfter)
		os.Exit(5)
	})
	return func() { wd.Stop() }
}

func ResolveTop(r *formula.Runner, e formula.Expression) TopLevel {
	installHooks()
	ob := &rootObs{root: e}
	rootWatch.Store(r, ob)
	defer rootWatch.Delete(r)
	done := HangGuard("an evaluation")
	v, err := safeResolve(r, e)
	done()
	t := TopLevel{Val: v, Err: err, Root: ob.res, RootOK: ob.seen && ob.err == nil}
	if pe, ok := err.(panicError); ok {
		t.Panic = pe.v
	}
	t.HasBoth = err != nil && v != nil
	return t
}

// EvalObserve evaluates expr on runner r through the public Resolve and projects the outcome:
// <<"ok", value, [this, log]>> | <<"err", [this, log]>> | <<"PANIC", msg>> | <<"BROKEN", why>>
// The value is the exact result of the root node (a number keeps its decimal).
func EvalObserve(r *formula.Runner, h *HostLog, e formula.Expression) any {
	t := ResolveTop(r, e)
	if t.Panic != nil {
		return proj.T{"PANIC", fmt.Sprint(t.Panic)}
	}
	st := map[string]any{"this": RunnerState(r), "log": append([]any{}, h.Log...)}
	if t.Err != nil {
		if t.HasBoth {
			return proj.T{"BROKEN", fmt.Sprintf("non-nil value %v together with an error", t.Val)}
		}
		return proj.T{"err", st}
	}
	if !t.RootOK {
		return proj.T{"BROKEN", "root node not observed by the resolve hook"}
	}
	return proj.T{"ok", proj.Value(t.Root), st}
}

type evalFam struct{}

func init() { Families["eval"] = func() Family { return evalFam{} } }

// state: toks (token sequence), data (record of descriptions), out (FEval outcome)
func (evalFam) Check(vars map[string]any) Result {
	toks, ok := vars["toks"].([]any)
	if !ok || len(toks) == 0 {
		return Result{Skip: true}
	}
	text, err := RenderTokens(toks)
	if err != nil {
		return Result{Input: fmt.Sprint(toks), Observed: err.Error(), Site: "harness"}
	}
	h := &HostLog{}
	dm, err := data.BuildMap(vars["data"], h)
	if err != nil {
		return Result{Input: text, Observed: "data: " + err.Error(), Site: "harness"}
	}
	exp := vars["out"]
	et, _ := exp.([]any)
	r := Result{Input: text, Expected: tlaval.Format(exp)}
	if d, ok := tlaval.Str(vars["d"]); ok {
		r.Input += "   [data " + d + "]"
	}
	obsP, src := ParseObserve(text)
	if ot, _ := obsP.([]any); len(ot) == 0 || ot[0] != "OK" {
		r.Observed = "parse: " + tlaval.Format(obsP)
		r.Site = "eval:parse"
		return r
	}
	if t, ok := vars["tree"]; ok {
		if !tlaval.Equal(proj.T{"OK", CanonTree(t)}, obsP) {
			r.Observed = "tree: " + tlaval.Format(obsP)
			r.Site = "eval:tree"
			return r
		}
	}
	run := formula.NewRunner()
	run.SetThis(dm)
	snap0 := frameSnapshot(dm)
	obs := EvalObserve(run, h, src.Expression)
	if snap1 := frameSnapshot(dm); snap1 != snap0 {
		// C07 frame condition: no non-"$" entry, and nothing reachable from one, may change
		r.Observed = tlaval.Format(obs) + " :: caller data changed: before " + snap0 + " after " + snap1
		r.Site = "frame:" + treeHead(vars["tree"])
		r.Nontrivial = true
		return r
	}
	r.Observed = tlaval.Format(obs)
	ot, _ := obs.([]any)
	r.Nontrivial = len(et) > 0 && et[0] != "unspec"
	if len(et) > 0 && et[0] == "unspec" {
		r.Sub = "unspec"
		r.OK = len(ot) > 0 && (ot[0] == "ok" || ot[0] == "err")
	} else {
		r.Sub = fmt.Sprint(et[0])
		r.OK = tlaval.Equal(exp, obs)
	}
	if !r.OK {
		r.Site = evalSite(vars["tree"], ot)
	}
	return r
}

// evalSite: the outermost operator / builtin of the failing program.
func evalSite(t any, obs []any) string {
	if len(obs) > 0 && obs[0] == "PANIC" {
		return "eval:panic:" + treeHead(t)
	}
	return "eval:" + treeHead(t)
}

func treeHead(t any) string {
	tt, ok := t.([]any)
	if !ok || len(tt) == 0 {
		return "?"
	}
	switch tt[0] {
	case "Bin", "Pre":
		return fmt.Sprintf("op:%v", tt[1])
	case "Call":
		if c, ok := tt[1].([]any); ok && len(c) == 2 && c[0] == "Id" {
			return fmt.Sprintf("call:%v", c[1])
		}
		return "call"
	case "Paren":
		return treeHead(tt[1])
	}
	return fmt.Sprint(tt[0])
}

// CanonTree rewrites every numeric literal <<"Lit", "Num", <<neg, digits, exp>>>> of a
// specification tree to its canonical form (a spelling such as 10e-1 denotes 1): the tree
// projected from the real parser carries the evaluated number, which has no spelling.
func CanonTree(t any) any {
	tt, ok := t.([]any)
	if !ok {
		return t
	}
	if len(tt) == 3 && tt[0] == "Lit" && tt[1] == "Num" {
		if d, ok := tt[2].([]any); ok && len(d) == 3 {
			neg, _ := d[0].(bool)
			ds, _ := d[1].([]any)
			exp, _ := d[2].(int64)
			var sb []byte
			for _, x := range ds {
				sb = append(sb, byte('0'+x.(int64)))
			}
			return []any{"Lit", "Num", proj.Canon(neg, string(sb), exp)}
		}
	}
	out := make([]any, len(tt))
	for i, e := range tt {
		out[i] = CanonTree(e)
	}
	return out
}

// frameSnapshot is the deep snapshot of the caller's data map without its "$" entries.
func frameSnapshot(dm map[string]interface{}) string {
	keys := make([]string, 0, len(dm))
	for k := range dm {
		if !strings.HasPrefix(k, "$") {
			keys = append(keys, k)
		}
	}
	sort.Strings(keys)
	var sb strings.Builder
	for _, k := range keys {
		sb.WriteString(k + "=" + proj.Snapshot(dm[k]) + ";")
	}
	return sb.String()
}
