package fam

import (
	"flag"
	"fmt"
	"math/big"
	"math/rand"
	"os"

	"github.com/ericlagergren/decimal"

	"verif/harness/proj"
)

func init() { Recorders["math"] = recordMath }

func decTriple(d *decimal.Big) ([]any, bool) {
	p, ok := proj.Dec(d).([]any)
	if !ok || len(p) != 3 {
		return nil, false
	}
	return p, true
}

// recordMath records sqrt / exp / ln / log on arguments of up to 15 significant digits.
func recordMath(args []string) int {
	fs := flag.NewFlagSet("math", flag.ExitOnError)
	out := fs.String("out", "", "output ndjson")
	seed := fs.Int64("seed", 1, "seed")
	n := fs.Int("n", 40, "events")
	one := fs.String("one", "", "re-execute this event")
	fs.Parse(args)
	var evs []map[string]any
	add := func(fn, lit string) error {
		v, err := evalWith(fmt.Sprintf("[%s(%s), %s]", fn, lit, lit), nil)
		if err != nil {
			return err
		}
		a, _ := v.([]interface{})
		if len(a) != 2 {
			return fmt.Errorf("unexpected result %v", v)
		}
		r, ok1 := a[0].(*decimal.Big)
		x, ok2 := a[1].(*decimal.Big)
		if !ok1 || !ok2 || !r.IsFinite() {
			return nil // non-finite results are not pinned
		}
		rt, _ := decTriple(r)
		xt, _ := decTriple(x)
		evs = append(evs, map[string]any{"ev": "math", "fn": fn, "x": xt, "r": rt, "lit": lit, "input": fmt.Sprintf("%s(%s)", fn, lit), "site": "math:" + fn})
		return nil
	}
	if *one != "" {
		e, err := readEvent(*one)
		if err == nil {
			err = add(fmt.Sprint(e["fn"]), fmt.Sprint(e["lit"]))
		}
		if err != nil {
			fmt.Fprintln(os.Stderr, err)
			return 2
		}
	} else {
		rng := rand.New(rand.NewSource(*seed))
		anchors := [][2]string{{"sqrt", "4"}, {"sqrt", "2"}, {"sqrt", "0.25"}, {"sqrt", "1e14"}, {"sqrt", "123456789012345"}, {"exp", "0"}, {"exp", "1"}, {"exp", "(-1)"},
			{"exp", "0.5"}, {"exp", "30"}, {"exp", "(-30)"}, {"exp", "50"}, {"exp", "64"}, {"exp", "100"}, {"exp", "(-100)"}, {"exp", "99.5"}, {"exp", "1e-10"}, {"ln", "1"}, {"ln", "2.718281828459045"}, {"ln", "10"}, {"ln", "1e-15"}, {"ln", "1e15"},
			{"ln", "1.000001"}, {"ln", "0.97"}, {"ln", "0.9999"}, {"ln", "0.999999999999"}, {"ln", "1.0000000001"}, {"ln", "0.5"}, {"log", "0.97"}, {"log", "0.999999"}, {"log", "1"}, {"log", "10"}, {"log", "1e7"}, {"log", "1e-7"}, {"log", "2"}, {"log", "999999999999999"}}
		// exact inverses: log of every power of ten 1e-15 .. 1e15, sqrt of squares
		for k := -15; k <= 15; k++ {
			anchors = append(anchors, [2]string{"log", fmt.Sprintf("1e%d", k)})
		}
		for k := 0; k < 12; k++ {
			nn := new(big.Int).SetInt64(rng.Int63n(99999999) + 1)
			sq := new(big.Int).Mul(nn, nn).String()
			if len(sq) > 15 {
				nn.SetInt64(rng.Int63n(9999999) + 1)
				sq = new(big.Int).Mul(nn, nn).String()
			}
			anchors = append(anchors, [2]string{"sqrt", sq + []string{"", "e-2", "e4", "e-10"}[k%4]})
		}
		// sqrt(x * x) = x for x of 9-15 significant digits (the operand of sqrt then has up to 30 digits)
		for k := 0; k < 16; k++ {
			d := 9 + rng.Intn(7)
			ds := make([]byte, d)
			for j := range ds {
				ds[j] = byte('0' + rng.Intn(10))
			}
			ds[0] = "345"[rng.Intn(3)] // leading digits 3.16..5: where rounding the operand first goes wrong most often
			if k%4 == 3 {
				ds[0] = byte('1' + rng.Intn(9))
			}
			ds[d-1] = byte('1' + rng.Intn(9))
			x := string(ds[:1]) + "." + string(ds[1:])
			if k%3 == 1 {
				x = string(ds[:d-2]) + "." + string(ds[d-2:])
			}
			anchors = append(anchors, [2]string{"sqrt", "(" + x + " * " + x + ")"})
		}
		for _, a := range anchors {
			if err := add(a[0], a[1]); err != nil {
				fmt.Fprintln(os.Stderr, err)
				return 2
			}
		}
		for len(evs) < *n {
			fn := []string{"sqrt", "exp", "ln", "log"}[rng.Intn(4)]
			var lit string
			switch fn {
			case "exp":
				lit = randLiteral(rng, 15, 2)
				if rng.Intn(2) == 0 {
					lit = "(-" + lit + ")"
				}
				// keep |x| below 40
				v, err := evalWith(fmt.Sprintf("abs(%s) < 40", lit), nil)
				if b, _ := v.(bool); err != nil || !b {
					continue
				}
			default:
				lit = randLiteral(rng, 15, 15)
			}
			if err := add(fn, lit); err != nil {
				fmt.Fprintln(os.Stderr, err)
				return 2
			}
		}
	}
	if err := writeEvents(*out, evs); err != nil {
		fmt.Fprintln(os.Stderr, err)
		return 2
	}
	return 0
}
