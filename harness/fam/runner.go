package fam

import (
	"fmt"
	"sort"
	"strings"

	formula "github.com/aundis/formula"

	"verif/harness/data"
	"verif/harness/proj"
	"verif/harness/tlaval"
)

// runner family (C20, C07, C08): state = [hist: sequence of [op, res, st]], replayed from a fresh
// world: the caller maps of MC_Runner.HeapDesc, runners r1, r2. After every operation the
// result and the projected abstract state must equal the specification's.
type runnerFam struct {
	formulas map[string][]formula.Expression
}

func init() { Families["runner"] = func() Family { return &runnerFam{} } }

// RunnerWorld is the real-code counterpart of the model state.
type RunnerWorld struct {
	Heap    map[string]map[string]interface{}
	Runners map[string]*formula.Runner
	Host    *HostLog
	AuxKeys []string
}

func NewRunnerWorld(heapDesc any, runners []string, auxKeys []string) (*RunnerWorld, error) {
	w := &RunnerWorld{Heap: map[string]map[string]interface{}{}, Runners: map[string]*formula.Runner{}, Host: &HostLog{}, AuxKeys: auxKeys}
	hd, ok := tlaval.AsMap(heapDesc)
	if !ok {
		return nil, fmt.Errorf("bad heap description")
	}
	for id, d := range hd {
		m, err := data.BuildMap(d, w.Host)
		if err != nil {
			return nil, err
		}
		w.Heap[id] = m
	}
	for _, r := range runners {
		w.Runners[r] = formula.NewRunner()
	}
	return w, nil
}

// Project: [heap |-> [id |-> map], runs |-> [r |-> [this |-> map, aux |-> [k |-> v]]]]
func (w *RunnerWorld) Project() any {
	heap := map[string]any{}
	for id, m := range w.Heap {
		heap[id] = mapOf(proj.Value(m))
	}
	runs := map[string]any{}
	for name, r := range w.Runners {
		aux := map[string]any{}
		for _, k := range w.AuxKeys {
			if v := r.Get(k); v != nil {
				aux[k] = proj.Value(v)
			}
		}
		runs[name] = map[string]any{"this": RunnerState(r), "aux": aux}
	}
	return map[string]any{"heap": heap, "runs": runs}
}

func mapOf(p any) any {
	if t, ok := p.([]any); ok && len(t) >= 2 && t[0] == "map" {
		return t[1]
	}
	return p
}

// defaults of MC_Runner (the dump does not repeat constants of the model)
var runnerHeapDesc = mustParse(`[m1 |-> [x |-> <<"int64", FALSE, <<9,0,0,7,1,9,9,2,5,4,7,4,0,9,9,3>>>>, fail |-> <<"func", "fail">>], m2 |-> ("$a" :> <<"int", 9>> @@ "x" :> <<"int", 2>> @@ "fail" :> <<"func", "fail">>), m3 |-> <<>>]`)
var runnerFormulaTexts = []string{"$a = x", "[$a, x, $b]", "$b = [$a]", "$a = 1, fail(1)", "this.$a", "k", "x = 1", "$b = $a + x", "x ?? ($b = 1)", "$a = $b = 1"}

func mustParse(s string) any {
	v, err := tlaval.ParseString(s)
	if err != nil {
		panic(err)
	}
	return v
}

func (f *runnerFam) exprs() ([]formula.Expression, error) {
	if f.formulas == nil {
		f.formulas = map[string][]formula.Expression{}
	}
	if e, ok := f.formulas["pool"]; ok {
		return e, nil
	}
	var out []formula.Expression
	for _, t := range runnerFormulaTexts {
		src, err := formula.ParseSourceCode([]byte(t))
		if err != nil {
			return nil, fmt.Errorf("pool formula %q: %v", t, err)
		}
		out = append(out, src.Expression)
	}
	f.formulas["pool"] = out
	return out, nil
}

// ApplyOp executes one model operation on the world and returns its result in the model's form.
func (w *RunnerWorld) ApplyOp(op []any, exprs []formula.Expression) (any, string, error) {
	name, _ := tlaval.Str(op[0])
	rn, _ := tlaval.Str(op[1])
	r := w.Runners[rn]
	if r == nil {
		return nil, "", fmt.Errorf("unknown runner %v", op[1])
	}
	switch name {
	case "SetThis":
		id, _ := tlaval.Str(op[2])
		if id == "nil" {
			r.SetThis(nil)
		} else {
			r.SetThis(w.Heap[id])
		}
		return []any{"none"}, fmt.Sprintf("%s.SetThis(%s)", rn, id), nil
	case "SetThisValue":
		k, _ := tlaval.Str(op[2])
		v, err := data.Build(op[3], w.Host)
		if err != nil {
			return nil, "", err
		}
		r.SetThisValue(k, v)
		return []any{"none"}, fmt.Sprintf("%s.SetThisValue(%s)", rn, k), nil
	case "Set":
		k, _ := tlaval.Str(op[2])
		v, err := data.Build(op[3], w.Host)
		if err != nil {
			return nil, "", err
		}
		r.Set(k, v)
		return []any{"none"}, fmt.Sprintf("%s.Set(%s)", rn, k), nil
	case "Get":
		k, _ := tlaval.Str(op[2])
		return []any{"val", proj.Value(r.Get(k))}, fmt.Sprintf("%s.Get(%s)", rn, k), nil
	case "Resolve":
		i, _ := op[2].(int64)
		if i < 1 || int(i) > len(exprs) {
			return nil, "", fmt.Errorf("bad formula index %v", op[2])
		}
		w.Host.Log = nil
		v, err := safeResolve(r, Wrap(exprs[i-1]))
		desc := fmt.Sprintf("%s.Resolve(%q)", rn, runnerFormulaTexts[i-1])
		log := append([]any{}, w.Host.Log...)
		if pe, ok := err.(panicError); ok {
			return []any{"PANIC", fmt.Sprint(pe.v)}, desc, nil
		}
		if err != nil {
			if v != nil {
				return []any{"BROKEN", "value with error"}, desc, nil
			}
			return []any{"err", log}, desc, nil
		}
		a, ok := v.([]interface{})
		if !ok || len(a) != 1 {
			return []any{"BROKEN", fmt.Sprintf("%T", v)}, desc, nil
		}
		return []any{"ok", proj.Value(a[0]), log}, desc, nil
	}
	return nil, "", fmt.Errorf("unknown op %q", name)
}

func (f *runnerFam) Check(vars map[string]any) Result {
	hist, ok := vars["hist"].([]any)
	if !ok || len(hist) == 0 {
		return Result{Skip: true}
	}
	exprs, err := f.exprs()
	if err != nil {
		return Result{Input: "pool", Observed: err.Error(), Site: "harness"}
	}
	w, err := NewRunnerWorld(runnerHeapDesc, []string{"r1", "r2"}, []string{"k", "x"})
	if err != nil {
		return Result{Input: "world", Observed: err.Error(), Site: "harness"}
	}
	var descs []string
	r := Result{Nontrivial: len(hist) > 1, Sub: fmt.Sprintf("len%d", len(hist))}
	for i, h := range hist {
		step, ok := tlaval.AsMap(h)
		if !ok {
			return Result{Input: "hist", Observed: "bad step", Site: "harness"}
		}
		op, _ := step["op"].([]any)
		res, d, err := w.ApplyOp(op, exprs)
		if err != nil {
			return Result{Input: strings.Join(descs, "; "), Observed: err.Error(), Site: "harness"}
		}
		descs = append(descs, d)
		st := w.Project()
		// runners of the world that the model does not have are ignored
		if sm, ok := tlaval.AsMap(step["st"]); ok {
			if runs, ok := tlaval.AsMap(sm["runs"]); ok {
				pr := st.(map[string]any)["runs"].(map[string]any)
				for name := range pr {
					if _, ok := runs[name]; !ok {
						delete(pr, name)
					}
				}
			}
		}
		if !tlaval.Equal(step["res"], res) || !tlaval.Equal(step["st"], st) {
			r.Input = strings.Join(descs, "; ")
			r.Expected = fmt.Sprintf("step %d: res=%s st=%s", i+1, tlaval.Format(step["res"]), tlaval.Format(step["st"]))
			r.Observed = fmt.Sprintf("step %d: res=%s st=%s", i+1, tlaval.Format(res), tlaval.Format(st))
			opn, _ := tlaval.Str(op[0])
			r.Site = "runner:" + opn
			if rr, ok := res.([]any); ok && len(rr) > 0 && rr[0] == "PANIC" {
				r.Site = "runner:panic"
			}
			return r
		}
	}
	sort.Strings(descs[:0])
	r.Input = strings.Join(descs, "; ")
	r.Observed = "conforms"
	r.OK = true
	return r
}
