package fam

import (
	"fmt"
	"strings"

	formula "github.com/aundis/formula"

	"verif/harness/proj"
	"verif/harness/tlaval"
)

// Grammar family: state = [s: token sequence <<k, v, nl>>, e: <<"OK", tree>> | <<"REJECT">>, pin: BOOLEAN].
type grammarFam struct{}

func init() { Families["grammar"] = func() Family { return grammarFam{} } }

// RenderTokens turns a specification token sequence into source text: lexemes
// separated by one space, or by a line feed where the token carries nl.
var lineBreakForms = []string{"\n", "\r\n", "\r", "\u2028", "\u2029", "\u0085", "\n", " \n\t"}
var spaceForms = []string{" ", " ", "\t", " ", "\u00a0", "  ", " ", "\u3000"}

func RenderTokens(s []any) (string, error) {
	var sb strings.Builder
	for i, t := range s {
		tt, ok := t.([]any)
		if !ok || len(tt) < 2 {
			return "", fmt.Errorf("bad token %v", t)
		}
		k, _ := tlaval.Str(tt[0])
		v, _ := tlaval.Str(tt[1])
		nl := false
		if len(tt) > 2 {
			nl, _ = tt[2].(bool)
		}
		// every line-terminator form and several kinds of white space, chosen by position (deterministic)
		if nl {
			sb.WriteString(lineBreakForms[(i*7+len(s)*3)%len(lineBreakForms)])
		} else if i > 0 {
			sb.WriteString(spaceForms[(i*5+len(s))%len(spaceForms)])
		}
		if k == "Str" {
			b, ok := Bytes(tt[1])
			if !ok {
				return "", fmt.Errorf("bad Str token %v", t)
			}
			sb.WriteString(QuoteStr(string(b)))
		} else if k == "Num" {
			txt, ok := proj.DecText(tt[1])
			if !ok {
				return "", fmt.Errorf("bad Num token %v", t)
			}
			sb.WriteString(txt)
		} else {
			sb.WriteString(v)
		}
	}
	return sb.String(), nil
}

// QuoteStr writes a string literal for a value (simple escaper, single quotes).
func QuoteStr(v string) string {
	var sb strings.Builder
	sb.WriteByte('\'')
	for i := 0; i < len(v); i++ {
		c := v[i]
		switch c {
		case '\'':
			sb.WriteString("\\'")
		case '\\':
			sb.WriteString("\\\\")
		case '\n':
			sb.WriteString("\\n")
		case '\r':
			sb.WriteString("\\r")
		default:
			sb.WriteByte(c)
		}
	}
	sb.WriteByte('\'')
	return sb.String()
}

// ParseObserve parses text with the real parser and projects the outcome:
// <<"OK", tree>> | <<"REJECT">> | <<"PANIC", msg>> | <<"BROKEN", why>>.
func ParseObserve(text string) (obs any, src *formula.SourceCode) {
	defer func() {
		if r := recover(); r != nil {
			obs = proj.T{"PANIC", fmt.Sprint(r)}
		}
	}()
	defer HangGuard(fmt.Sprintf("parsing %q", text))()
	src, err := formula.ParseSourceCode([]byte(text))
	if err != nil {
		return proj.T{"REJECT"}, src
	}
	if src == nil {
		return proj.T{"BROKEN", "nil source without error"}, nil
	}
	return proj.T{"OK", proj.Tree(src.Expression)}, src
}

// ParseObserveBytes is ParseObserve on the caller's own byte buffer (no copy is made).
func ParseObserveBytes(text []byte) (obs any, src *formula.SourceCode) {
	defer func() {
		if r := recover(); r != nil {
			obs = proj.T{"PANIC", fmt.Sprint(r)}
		}
	}()
	defer HangGuard(fmt.Sprintf("parsing %q", text))()
	src, err := formula.ParseSourceCode(text)
	if err != nil {
		return proj.T{"REJECT"}, src
	}
	if src == nil {
		return proj.T{"BROKEN", "nil source without error"}, nil
	}
	return proj.T{"OK", proj.Tree(src.Expression)}, src
}

func (grammarFam) Check(vars map[string]any) Result {
	s, ok := vars["s"].([]any)
	if !ok {
		return Result{Skip: true}
	}
	text, err := RenderTokens(s)
	if err != nil {
		return Result{OK: false, Input: fmt.Sprint(s), Observed: err.Error(), Site: "harness"}
	}
	exp := vars["e"]
	obs, _ := ParseObserve(text)
	pin := true
	if p, ok := vars["pin"].(bool); ok {
		pin = p
	}
	r := Result{Input: text, Expected: tlaval.Format(exp), Observed: tlaval.Format(obs)}
	et, _ := exp.([]any)
	r.Nontrivial = len(et) > 0 && et[0] == "OK"
	ot, _ := obs.([]any)
	if !pin {
		// unpinned corner: only totality is demanded
		r.OK = len(ot) > 0 && (ot[0] == "OK" || ot[0] == "REJECT")
		if r.OK && ot[0] == "OK" {
			r.OK = !strings.Contains(r.Observed, "\"NIL\"") && !strings.Contains(r.Observed, "\"MISSING\"")
		}
		r.Sub = "unpinned"
	} else {
		r.OK = tlaval.Equal(exp, obs)
		r.Sub = "pinned"
	}
	if !r.OK {
		r.Site = grammarSite(s, ot)
	}
	return r
}

// grammarSite classifies a failing token sequence by the construct involved.
func grammarSite(s []any, obs []any) string {
	if len(obs) > 0 && (obs[0] == "PANIC" || obs[0] == "BROKEN") {
		return "parse:" + strings.ToLower(fmt.Sprint(obs[0]))
	}
	ks := make([]string, len(s))
	for i, t := range s {
		ks[i], _ = tlaval.Str(t.([]any)[0])
	}
	for i := 0; i+1 < len(ks); i++ {
		if ks[i] == "." && ks[i+1] == "!." {
			return "parse:dot-exclamationdot"
		}
	}
	for i := 1; i < len(ks); i++ {
		if ks[i] == "!!" && (ks[i-1] == "[" || ks[i-1] == "(" || ks[i-1] == ",") {
			return "parse:bangbang-starts-list-element"
		}
	}
	return "parse:other"
}
