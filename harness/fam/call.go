package fam

import (
	"context"
	"errors"
	"fmt"
	"reflect"
	"strings"
	"time"

	formula "github.com/aundis/formula"
	"github.com/ericlagergren/decimal"

	"verif/harness/data"
	"verif/harness/proj"
	"verif/harness/tlaval"
)

// call family (C11): state = sig <<ctx, <<kinds>>, variadic>>, args (indices into the pool of
// MC_Call.ArgDescs), spread, ret, out. The function is synthesised with reflect.MakeFunc and
// records every invocation.
type callFam struct{}

func init() { Families["call"] = func() Family { return callFam{} } }

var callArgDescs = mustParse(`<< <<"dec", FALSE, <<7>>, 0>>, <<"dec", FALSE, <<2,7,5>>, -2>>, <<"dec", TRUE, <<2,7,5>>, -2>>, <<"str", <<97,98>>>>, <<"bool", TRUE>>, <<"nil">>,
  <<"slice", << <<"dec", FALSE, <<1>>, 0>>, <<"dec", FALSE, <<2,5>>, -1>> >>>>, <<"slice", << <<"str", <<97>>>>, <<"str", <<98>>>> >>>>,
  <<"map", [k |-> <<"int", 1>>]>>, <<"time", 19000, 0, 0>>, <<"dec", FALSE, <<3>>, 2>>, <<"slice", <<>>>>,
  <<"strs", << <<97>>, <<98>> >>>>, <<"ints", <<1, 2>>>>,
  <<"slice", << <<"dec", FALSE, <<1>>, 0>>, <<"nil">>, <<"str", <<97>>>> >>>> >>`).([]any)

var kindTypes = map[string]reflect.Type{
	"string": reflect.TypeOf(""), "bool": reflect.TypeOf(true), "int": reflect.TypeOf(int(0)), "int8": reflect.TypeOf(int8(0)),
	"int16": reflect.TypeOf(int16(0)), "int32": reflect.TypeOf(int32(0)), "int64": reflect.TypeOf(int64(0)),
	"float32": reflect.TypeOf(float32(0)), "float64": reflect.TypeOf(float64(0)),
	"any": reflect.TypeOf((*interface{})(nil)).Elem(), "big": reflect.TypeOf((*decimal.Big)(nil)), "time": reflect.TypeOf(time.Time{}),
	"strs": reflect.TypeOf([]string(nil)), "ints": reflect.TypeOf([]int(nil)), "i32s": reflect.TypeOf([]int32(nil)), "anys": reflect.TypeOf([]interface{}(nil)),
	"smap": reflect.TypeOf(map[string]interface{}(nil)),
	"appctx": reflect.TypeOf((*Context)(nil)).Elem(),
}

// Context is an interface of the application that is merely *named* like context.Context: a parameter of this type
// is an ordinary declared parameter.
type Context interface{ Tag() string }

var (
	ctxType = reflect.TypeOf((*context.Context)(nil)).Elem()
	errType = reflect.TypeOf((*error)(nil)).Elem()
	anyType = reflect.TypeOf((*interface{})(nil)).Elem()
)

type ctxKey struct{}

type callRecord struct {
	calls    int
	received []any
	ctxOK    bool
}

func retValues(ret string) (reflect.Type, reflect.Value, error) {
	var nilErr = reflect.Zero(errType)
	_ = nilErr
	switch ret {
	case "int":
		return reflect.TypeOf(int(0)), reflect.ValueOf(int(7)), nil
	case "int32":
		return reflect.TypeOf(int32(0)), reflect.ValueOf(int32(-3)), nil
	case "int64":
		return reflect.TypeOf(int64(0)), reflect.ValueOf(int64(9007199254740993)), nil
	case "float32":
		return reflect.TypeOf(float32(0)), reflect.ValueOf(float32(2.5)), nil
	case "float32b":
		return reflect.TypeOf(float32(0)), reflect.ValueOf(float32(0.1)), nil
	case "float64":
		return reflect.TypeOf(float64(0)), reflect.ValueOf(float64(0.1)), nil
	case "string":
		return reflect.TypeOf(""), reflect.ValueOf("ok"), nil
	case "nil":
		return anyType, reflect.Zero(anyType), nil
	case "error":
		return anyType, reflect.Zero(anyType), errors.New("deliberate failure")
	}
	return nil, reflect.Value{}, fmt.Errorf("unknown ret %q", ret)
}

// synthesise builds func([ctx,] params...) (T, error) recording its invocations.
func synthesise(hasCtx bool, kinds []string, variadic bool, ret string, rec *callRecord, marker context.Context) (interface{}, error) {
	var in []reflect.Type
	if hasCtx {
		in = append(in, ctxType)
	}
	for i, k := range kinds {
		t, ok := kindTypes[k]
		if !ok {
			return nil, fmt.Errorf("unknown kind %q", k)
		}
		if variadic && i == len(kinds)-1 {
			t = reflect.SliceOf(t)
		}
		in = append(in, t)
	}
	rt, rv, rerr := retValues(ret)
	if rt == nil {
		return nil, rerr
	}
	ft := reflect.FuncOf(in, []reflect.Type{rt, errType}, variadic)
	fn := reflect.MakeFunc(ft, func(args []reflect.Value) []reflect.Value {
		rec.calls++
		rec.received = nil
		rec.ctxOK = true
		i := 0
		if hasCtx {
			c, _ := args[0].Interface().(context.Context)
			rec.ctxOK = c != nil && c.Value(ctxKey{}) == marker.Value(ctxKey{}) && c.Value(ctxKey{}) != nil
			i = 1
		}
		for ; i < len(args); i++ {
			if variadic && i == len(args)-1 {
				for j := 0; j < args[i].Len(); j++ {
					rec.received = append(rec.received, proj.Value(args[i].Index(j).Interface()))
				}
				continue
			}
			rec.received = append(rec.received, proj.Value(args[i].Interface()))
		}
		ev := reflect.Zero(errType)
		if rerr != nil {
			ev = reflect.ValueOf(&rerr).Elem()
		}
		return []reflect.Value{rv, ev}
	})
	return fn.Interface(), nil
}

func (callFam) Check(vars map[string]any) Result {
	ph, _ := tlaval.Str(vars["phase"])
	if ph != "case" {
		return Result{Skip: true}
	}
	sig, _ := vars["sig"].([]any)
	argIdx, _ := vars["args"].([]any)
	spread, _ := vars["spread"].(bool)
	ret, _ := tlaval.Str(vars["ret"])
	exp := vars["out"]
	et, _ := exp.([]any)
	if len(sig) != 3 || len(et) == 0 {
		return Result{Skip: true}
	}
	hasCtx, _ := sig[0].(bool)
	ks, _ := sig[1].([]any)
	variadic, _ := sig[2].(bool)
	kinds := make([]string, len(ks))
	for i, k := range ks {
		kinds[i], _ = tlaval.Str(k)
	}
	marker := context.WithValue(context.Background(), ctxKey{}, new(int))
	rec := &callRecord{}
	fn, err := synthesise(hasCtx, kinds, variadic, ret, rec, marker)
	if err != nil {
		return Result{Input: fmt.Sprint(sig), Observed: err.Error(), Site: "harness"}
	}
	dm := map[string]interface{}{"hostfn": fn}
	names := make([]string, len(argIdx))
	for i, a := range argIdx {
		n, _ := a.(int64)
		v, err := data.Build(callArgDescs[n-1], nil)
		if err != nil {
			return Result{Input: fmt.Sprint(sig), Observed: err.Error(), Site: "harness"}
		}
		names[i] = fmt.Sprintf("a%d", i+1)
		dm[names[i]] = v
	}
	text := "hostfn(" + strings.Join(names, ", ")
	if spread {
		text += "..."
	}
	text += ")"
	r := Result{Input: fmt.Sprintf("%s with sig ctx=%v %v variadic=%v, args %v, returns %s", text, hasCtx, kinds, variadic, argIdx, ret),
		Expected: tlaval.Format(exp), Nontrivial: et[0] != "u", Sub: fmt.Sprint(et[0])}
	src, perr := formula.ParseSourceCode([]byte(text))
	if perr != nil {
		r.Observed = "parse: " + perr.Error()
		r.Site = "call:parse"
		return r
	}
	run := formula.NewRunner()
	run.SetThis(dm)
	installHooks()
	ob := &rootObs{root: src.Expression}
	rootWatch.Store(run, ob)
	var val interface{}
	var rerr error
	var pan any
	func() {
		defer func() {
			if x := recover(); x != nil {
				pan = x
			}
		}()
		val, rerr = run.Resolve(marker, src.Expression)
	}()
	rootWatch.Delete(run)
	var obs any
	switch {
	case pan != nil:
		obs = []any{"PANIC", fmt.Sprint(pan)}
	case rec.calls > 1:
		obs = []any{"calls", int64(rec.calls)}
	case rec.calls == 0 && rerr != nil:
		obs = []any{"notcalled"}
	case rec.calls == 0:
		obs = []any{"BROKEN", "no invocation and no error"}
	case hasCtx && !rec.ctxOK:
		obs = []any{"badctx"}
	case rerr != nil && val != nil:
		obs = []any{"BROKEN", "value with error"}
	case rerr != nil:
		if strings.Contains(rerr.Error(), "hostfn") {
			obs = []any{"called", append([]any{}, rec.received...), []any{"named-error"}}
		} else {
			obs = []any{"called", append([]any{}, rec.received...), []any{"unnamed-error", rerr.Error()}}
		}
	default:
		obs = []any{"called", append([]any{}, rec.received...), []any{"v", proj.Value(ob.res)}}
	}
	r.Observed = tlaval.Format(obs)
	ot := obs.([]any)
	if et[0] == "u" {
		r.OK = ot[0] == "called" || ot[0] == "notcalled"
	} else {
		r.OK = tlaval.Equal(exp, obs)
	}
	if !r.OK {
		r.Site = fmt.Sprintf("call:%v->%v", et[0], ot[0])
		if et[0] == "called" && ot[0] == "called" {
			r.Site = "call:received-or-result"
		}
	}
	return r
}
