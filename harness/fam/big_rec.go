package fam

import (
	"flag"
	"fmt"
	"math/rand"
	"os"
	"runtime"
	"runtime/debug"
	"strings"
	"time"

	formula "github.com/aundis/formula"
)

func init() { Recorders["big"] = recordBig }

// bigShape builds a pathological text of about n bytes.
func bigShape(name string, n int, rng *rand.Rand) []byte {
	rep := func(s string) string { return strings.Repeat(s, n/len(s)+1)[:n] }
	switch name {
	case "parens":
		return []byte(strings.Repeat("(", n/2) + "a" + strings.Repeat(")", n/2))
	case "parens-open":
		return []byte(rep("("))
	case "brackets":
		return []byte(strings.Repeat("[", n/2) + "1" + strings.Repeat("]", n/2))
	case "brackets-open":
		return []byte(rep("[a,"))
	case "prefix-chain":
		return []byte(rep("-!") + "a")
	case "plus-chain":
		return []byte("a" + rep("+a"))
	case "mixed-chain":
		return []byte("a" + rep("*a+a==a&&a||a"))
	case "ternary-chain":
		return []byte(rep("a?") + "a" + strings.Repeat(":a", n/2))
	case "ternary-open":
		return []byte(rep("a?a?"))
	case "assign-chain":
		return []byte(rep("$a=") + "1")
	case "member-chain":
		return []byte("a" + rep(".b"))
	case "call-chain":
		return []byte("f" + rep("()"))
	case "args":
		return []byte("f(" + rep("1,") + "1)")
	case "commas":
		return []byte("[" + rep(",") + "]")
	case "string-open":
		return []byte("'" + rep("x"))
	case "string-escapes":
		return []byte("'" + rep("\\n\\x41\\u4e2d") + "'")
	case "identifier":
		return []byte(rep("abc"))
	case "number":
		return []byte(rep("1234567890"))
	case "separators":
		return []byte(rep("1_"))
	case "whitespace":
		return []byte(rep(" \t\n\r "))
	case "list-stray":
		return []byte("[" + rep("@"))
	case "list-colons":
		return []byte("[" + rep(":"))
	case "args-invalid":
		return []byte("f(" + rep("\xff"))
	case "list-parens":
		return []byte("[" + rep(")"))
	case "stray":
		return []byte(rep("@#"))
	case "invalid-utf8":
		return []byte(rep("\xff\xfe\xc3"))
	case "dots":
		return []byte(rep("."))
	case "bangs":
		return []byte(rep("!"))
	case "newline-dots":
		return []byte("a" + rep("\n.b"))
	case "typeof-chain":
		return []byte(rep("typeof ") + "a")
	case "soup":
		var sb strings.Builder
		for sb.Len() < n {
			sb.WriteString(alphabet[rng.Intn(len(alphabet))])
		}
		return []byte(sb.String()[:n])
	case "bytes":
		b := make([]byte, n)
		rng.Read(b)
		return b
	}
	return nil
}

var bigShapes = []string{"parens", "parens-open", "brackets", "brackets-open", "prefix-chain", "plus-chain", "mixed-chain", "ternary-chain",
	"ternary-open", "assign-chain", "member-chain", "call-chain", "args", "commas", "string-open", "string-escapes", "identifier", "number",
	"separators", "whitespace", "list-stray", "list-colons", "args-invalid", "list-parens", "stray", "invalid-utf8", "dots", "bangs", "newline-dots", "typeof-chain", "soup", "bytes"}

func timeParse(text []byte) int64 {
	best := int64(-1)
	for k := 0; k < 5; k++ {
		t0 := time.Now()
		func() {
			defer func() { recover() }()
			formula.ParseSourceCode(text)
		}()
		d := time.Since(t0).Nanoseconds()
		if best < 0 || d < best {
			best = d
		}
	}
	return best
}

// completeTree: no nil child, missing token or absent list anywhere in an accepted tree.
func completeTree(obs any) bool {
	s := fmt.Sprint(obs)
	return !strings.Contains(s, "NIL") && !strings.Contains(s, "MISSING")
}

func bigEvent(shape string, n int, rng *rand.Rand) map[string]any {
	text := bigShape(shape, n, rng)
	small := bigShape(shape, 4096, rand.New(rand.NewSource(1)))
	ev := map[string]any{"ev": "big", "shape": shape, "len": len(text), "input": fmt.Sprintf("shape %s, %d bytes", shape, len(text)), "site": "big:" + shape}
	toks, _, pan := ScanAll(text)
	ev["ntoks"] = len(toks)
	ev["tiling"] = tiles(text, toks)
	if pan != nil {
		ev["tiling"] = fmt.Sprintf("scanner abort: %v", pan)
	}
	formula.VerifScanHook = func(s *formula.Scanner) { scanCount.Add(1) }
	before := scanCount.Load()
	done := make(chan any, 1)
	go func() {
		o, _ := ParseObserve(string(text))
		done <- o
	}()
	var obs any
	select {
	case obs = <-done:
	case <-time.After(60 * time.Second):
		ev["out"] = "hang"
		ev["scans"], ev["complete"], ev["us4k"], ev["us64k"] = 0, false, 0, 0
		return ev
	}
	ev["scans"] = scanCount.Load() - before
	formula.VerifScanHook = nil
	ot, _ := obs.([]any)
	switch {
	case len(ot) > 0 && ot[0] == "OK":
		ev["out"] = "ok"
		ev["complete"] = completeTree(obs)
	case len(ot) > 0 && ot[0] == "REJECT":
		ev["out"] = "reject"
		ev["complete"] = false
	default:
		ev["out"] = "panic"
		ev["complete"] = false
		ev["res"] = fmt.Sprint(obs)
	}
	// wall-clock net: best of 5 with the collector off; a slow verdict must repeat three times
	old := debug.SetGCPercent(-1)
	var t4, t64 int64
	for round := 0; round < 3; round++ {
		runtime.GC()
		t4, t64 = timeParse(small), timeParse(text)
		if !(t64 > 2000000000 || (t64 > 50000000 && t64 > 128*t4)) {
			break
		}
	}
	debug.SetGCPercent(old)
	// microseconds: TLC integers are 32 bits wide
	ev["us4k"], ev["us64k"] = t4/1000, t64/1000
	return ev
}

func recordBig(args []string) int {
	fs := flag.NewFlagSet("big", flag.ExitOnError)
	out := fs.String("out", "", "output ndjson")
	seed := fs.Int64("seed", 1, "seed")
	sizes := fs.String("sizes", "1024,8192,65536", "sizes")
	one := fs.String("one", "", "re-execute this event")
	fs.Parse(args)
	rng := rand.New(rand.NewSource(*seed))
	var evs []map[string]any
	if *one != "" {
		e, err := readEvent(*one)
		if err != nil {
			fmt.Fprintln(os.Stderr, err)
			return 2
		}
		n, _ := jsonToVal(e["len"]).(int64)
		evs = append(evs, bigEvent(fmt.Sprint(e["shape"]), int(n), rng))
	} else {
		for _, sz := range strings.Split(*sizes, ",") {
			var n int
			fmt.Sscan(sz, &n)
			for _, sh := range bigShapes {
				evs = append(evs, bigEvent(sh, n, rng))
			}
		}
	}
	if err := writeEvents(*out, evs); err != nil {
		fmt.Fprintln(os.Stderr, err)
		return 2
	}
	return 0
}
