package fam

import (
	"flag"
	"fmt"
	"math/rand"
	"os"
	"regexp"
	"strconv"
	"strings"
	"sync/atomic"
	"time"

	formula "github.com/aundis/formula"
)

func init() { Recorders["parse"] = recordParse }

var scanCount atomic.Int64

var corpus = []string{
	"1 + 2 * 3", "a.b.c", "f(x, y...)", "$a = 1, $a + 2", "c ? a : b", "[1, 'two', [3]]", "!a && b || c ?? d",
	"typeof x == 'number'", "a!.b(c).d", "-x * +y / ~z % 2", "'it\\'s' + \"q\\\"uote\"", "1_000.5e-3 < .5", "this.k === null",
	"a & b | c ^ d", "x <= y == z >= w", "(a, b)", "ctx", "max(1, 2, 3)", "a.\nb", "f(\n1,\n2)", "a ? b ? c : d : e",
	"$x = $y = 3", "'\\x41\\u4e2d'", "a + b", "a\u0085b", "a\r\nb", "名前 + 1", "a /* no comments */ b", "0.1 + 0.2 === 0.3",
}

var alphabet = []string{"a", "b", "$", "_", "0", "1", "9", ".", "e", "E", "+", "-", "*", "/", "%", "(", ")", "[", "]", ",", "?", ":", "=", "!",
	"<", ">", "&", "|", "^", "~", "'", "\"", "\\", " ", "\t", "\n", "\r", " ", " ", "\u0085", " ", "é", "中", "\xff", "\xc3", "@", "#", "x", "u", "n", "true", "null", "typeof", "this", "...", "!.", "??", "===", "!=="}

var shapeRe = regexp.MustCompile(`^pos\((\d+), (\d+)\) error\((\d+)\) `)

func genText(rng *rand.Rand, maxLen int) string {
	switch rng.Intn(4) {
	case 0: // random soup
		n := rng.Intn(12)
		s := ""
		for i := 0; i < n; i++ {
			s += alphabet[rng.Intn(len(alphabet))]
		}
		return clip(s, maxLen)
	case 1: // mutated corpus formula
		s := []byte(corpus[rng.Intn(len(corpus))])
		for m := rng.Intn(3); m >= 0 && len(s) > 0; m-- {
			p := rng.Intn(len(s))
			switch rng.Intn(4) {
			case 0:
				s[p] = byte(rng.Intn(256))
			case 1:
				s = append(s[:p], s[p+1:]...)
			case 2:
				ins := alphabet[rng.Intn(len(alphabet))]
				s = append(s[:p], append([]byte(ins), s[p:]...)...)
			case 3:
				s = s[:p]
			}
		}
		return clip(string(s), maxLen)
	case 2: // lexeme soup with separators
		n := rng.Intn(10) + 1
		s := ""
		seps := []string{"", " ", "\n", "\t", " ", "\r\n", " "}
		for i := 0; i < n; i++ {
			s += alphabet[rng.Intn(len(alphabet))] + seps[rng.Intn(len(seps))]
		}
		return clip(s, maxLen)
	default: // corpus formula with an error appended or prepended after line breaks
		lb := []string{"\n", "\r", "\r\n", " ", " ", "\u0085"}
		s := ""
		for k := rng.Intn(4); k >= 0; k-- {
			s += clip(corpus[rng.Intn(len(corpus))], rng.Intn(6)+1) + lb[rng.Intn(len(lb))]
		}
		return clip(s+alphabet[rng.Intn(len(alphabet))]+lb[rng.Intn(len(lb))], maxLen)
	}
}

// genNumberText: a numeric literal spelling with integer / fraction / exponent parts of 0-40 digits and
// separators placed at random (valid and invalid placements), embedded in a formula at a random position.
func genNumberText(rng *rand.Rand) string {
	digits := func(max int) string {
		n := rng.Intn(max + 1)
		b := make([]byte, 0, n+4)
		for i := 0; i < n; i++ {
			b = append(b, byte('0'+rng.Intn(10)))
			if rng.Intn(9) == 0 {
				b = append(b, '_')
			}
		}
		return string(b)
	}
	lit := digits(40)
	if rng.Intn(2) == 0 {
		lit += "." + digits(40)
	}
	if rng.Intn(3) == 0 {
		pad := ""
		if rng.Intn(5) == 0 {
			pad = strings.Repeat("0", 12+rng.Intn(14)) // leading zeros of an exponent are insignificant, however many
		}
		lit += []string{"e", "E"}[rng.Intn(2)] + []string{"", "+", "-"}[rng.Intn(3)] + pad + digits(3)
	}
	if rng.Intn(12) == 0 {
		lit += []string{"a", "x", "_", "e", "$", "\u0662", "\uff13", "e\u0662", "_\u0663", "\U0001d7d8", "\u00a0+ 1", "\u3000", "\u2028"}[rng.Intn(13)]
	}
	ctxs := []string{"%s", "[%s]", "-%s", "%s + %s", "f(%s)", "c ? %s : %s", "[%s, %s]", "%s .x", "(%s)", "$a = %s", "%s\n+ 1", "a.b(%s)"}
	c := ctxs[rng.Intn(len(ctxs))]
	return strings.ReplaceAll(strings.ReplaceAll(c, "%s", lit), "\\n", "\n")
}

// genStringText: a text of up to maxLen bytes written as a string literal by a reference escaper that picks
// one of the equivalent escape forms per character; sometimes left open or broken by a raw line break.
func genStringText(rng *rand.Rand, maxLen int) string {
	quote := []byte{'\'', '"'}[rng.Intn(2)]
	n := rng.Intn(maxLen)
	var sb strings.Builder
	sb.WriteByte(quote)
	pool := []rune{'a', 'b', ' ', '\'', '"', '\\', '\n', '\r', '\t', 0, 8, 12, 11, '1', 'n', 'x', 'u', 'f', 'é', '中', '静', '￥', '\ue000', '\u2028', '\u0085', 'Z', '0', '7', '~', '\U0001F600'}
	for i := 0; i < n; i++ {
		c := pool[rng.Intn(len(pool))]
		if rng.Intn(25) == 0 {
			// a stray byte (invalid UTF-8), kept verbatim
			sb.WriteByte([]byte{0x85, 0xff, 0x80, 0xa0, 0xbf, 0xc3, 0xe2, 0xa8, 0xa9}[rng.Intn(9)])
			continue
		}
		simple := map[rune]string{'\'': "\\'", '"': "\\\"", '\\': "\\\\", '\n': "\\n", '\r': "\\r", '\t': "\\t", 8: "\\b", 12: "\\f", 11: "\\v", 0: "\\0"}
		forms := []string{}
		if c != rune(quote) && c != '\\' && !formula.IsLineBreak(c) {
			forms = append(forms, string(c))
		}
		if s, ok := simple[c]; ok {
			forms = append(forms, s)
		}
		if c < 256 {
			forms = append(forms, fmt.Sprintf("\\x%02x", c), fmt.Sprintf("\\x%02X", c))
		}
		if c < 65536 {
			forms = append(forms, fmt.Sprintf("\\u%04x", c), fmt.Sprintf("\\u%04X", c))
		}
		sb.WriteString(forms[rng.Intn(len(forms))])
	}
	switch rng.Intn(12) {
	case 0: // left open at the end of input
	case 1: // left open at a raw line break
		sb.WriteString([]string{"\n", "\r", "\u2028", "\u0085"}[rng.Intn(4)])
		sb.WriteByte(quote)
	case 2: // an invalid byte inside
		sb.WriteString("\xff")
		sb.WriteByte(quote)
	default:
		sb.WriteByte(quote)
	}
	if rng.Intn(4) == 0 {
		return "[" + sb.String() + ", " + sb.String() + "]"
	}
	return sb.String()
}

func clip(s string, n int) string {
	if len(s) > n {
		return s[:n]
	}
	return s
}

// ParseEvent runs the real scanner and parser on text and records what they expose.
func ParseEvent(text []byte) map[string]any {
	ev := map[string]any{"ev": "parse", "text": byteSeq(text), "input": fmt.Sprintf("%q", text), "site": "parse:" + lexemeClass(text, 0)}
	toks, errs, pan := ScanAll(text)
	tl := make([]any, len(toks))
	for i, t := range toks {
		tl[i] = t
	}
	ev["toks"] = tl
	nerr := 0
	if len(errs) > 0 {
		nerr = errs[len(errs)-1]
	}
	ev["serr"] = nerr
	if pan != nil {
		ev["scanpanic"] = fmt.Sprint(pan)
	}
	formula.VerifScanHook = func(s *formula.Scanner) { scanCount.Add(1) }
	before := scanCount.Load()
	done := make(chan struct{})
	var obs any
	var src *formula.SourceCode
	var perr error
	go func() {
		defer close(done)
		defer func() {
			if r := recover(); r != nil {
				obs = []any{"PANIC", fmt.Sprint(r)}
			}
		}()
		src, perr = formula.ParseSourceCode(text)
	}()
	select {
	case <-done:
	case <-time.After(20 * time.Second):
		ev["out"] = "hang"
		return ev
	}
	ev["scans"] = scanCount.Load() - before
	ev["tree"] = []any{}
	ev["diags"] = []any{}
	ev["shape"] = []any{}
	switch {
	case obs != nil:
		ev["out"] = "panic"
		ev["res"] = obs
	case perr != nil:
		ev["out"] = "reject"
		ev["res"] = perr.Error()
		if src != nil {
			ds := []any{}
			for _, d := range src.Diagnostics {
				ds = append(ds, []any{d.Start, d.Length, d.Code})
			}
			ev["diags"] = ds
		}
		if m := shapeRe.FindStringSubmatch(perr.Error()); m != nil {
			l, _ := strconv.Atoi(m[1])
			c, _ := strconv.Atoi(m[2])
			code, _ := strconv.Atoi(m[3])
			ev["shape"] = []any{l, c, code}
		}
	case src == nil:
		ev["out"] = "broken"
	default:
		ev["out"] = "ok"
		o, _ := ParseObserve(string(text))
		if t, ok := o.([]any); ok && len(t) == 2 {
			ev["tree"] = t[1]
		}
	}
	return ev
}

func recordParse(args []string) int {
	fs := flag.NewFlagSet("parse", flag.ExitOnError)
	out := fs.String("out", "", "output ndjson")
	seed := fs.Int64("seed", 1, "seed")
	n := fs.Int("n", 1000, "number of texts")
	mode := fs.String("mode", "mixed", "mixed | numbers | strings")
	maxLen := fs.Int("maxlen", 60, "maximal text length in bytes")
	one := fs.String("one", "", "re-execute the text of this event")
	fs.Parse(args)
	var evs []map[string]any
	if *one != "" {
		e, err := readEvent(*one)
		if err != nil {
			fmt.Fprintln(os.Stderr, err)
			return 2
		}
		b, ok := Bytes(jsonToVal(e["text"]))
		if !ok {
			fmt.Fprintln(os.Stderr, "bad text in event")
			return 2
		}
		evs = append(evs, ParseEvent(b))
	} else {
		rng := rand.New(rand.NewSource(*seed))
		for i := 0; i < *n; i++ {
			switch *mode {
			case "numbers":
				evs = append(evs, ParseEvent([]byte(genNumberText(rng))))
			case "strings":
				evs = append(evs, ParseEvent([]byte(genStringText(rng, *maxLen))))
			default:
				evs = append(evs, ParseEvent([]byte(genText(rng, *maxLen))))
			}
		}
	}
	if err := writeEvents(*out, evs); err != nil {
		fmt.Fprintln(os.Stderr, err)
		return 2
	}
	return 0
}
