package fam

import (
	"fmt"

	formula "github.com/aundis/formula"

	"verif/harness/proj"
	"verif/harness/tlaval"
)

// Bytes converts a TLA+ byte sequence to []byte.
func Bytes(v any) ([]byte, bool) {
	t, ok := v.([]any)
	if !ok {
		return nil, false
	}
	out := make([]byte, len(t))
	for i, e := range t {
		n, ok := e.(int64)
		if !ok || n < 0 || n > 255 {
			return nil, false
		}
		out[i] = byte(n)
	}
	return out, true
}

func byteSeq(b []byte) []any {
	out := make([]any, len(b))
	for i, c := range b {
		out[i] = int64(c)
	}
	return out
}

// ScanAll runs the real scanner over the text through its public API.
// Each token: <<k, start, tpos, end, val, nl>>, errs[i] = diagnostics reported so far.
func ScanAll(text []byte) (toks [][]any, errs []int, panicked any) {
	defer func() {
		if r := recover(); r != nil {
			panicked = r
		}
	}()
	defer HangGuard(fmt.Sprintf("scanning %q", text))()
	nerr := 0
	sc := formula.CreateScanner(text, func(msg *formula.DiagnosticMessage, pos int, length int) { nerr++ })
	for i := 0; i <= len(text)+1; i++ {
		k := sc.Scan()
		var val []any = []any{}
		switch k {
		case formula.SK_NumberLiteral, formula.SK_StringLiteral, formula.SK_Identifier,
			formula.SK_TrueKeyword, formula.SK_FalseKeyword, formula.SK_NullKeyword, formula.SK_ThisKeyword,
			formula.SK_CtxKeyword, formula.SK_TypeofKeyword:
			val = byteSeq([]byte(sc.GetTokenValue()))
		}
		if sc.GetToken() != k {
			panicked = fmt.Sprintf("Scan() returned %v but GetToken() is %v", k, sc.GetToken())
			return
		}
		toks = append(toks, []any{proj.SpecKind(k), int64(sc.GetStartPos()), int64(sc.GetTokenPos()), int64(sc.GetTextPos()), val, sc.HasPrecedingLineBreak()})
		errs = append(errs, nerr)
		// speculation is a stuttering step of the scanner: looking ahead (and a failed TryScan) leaves every observable
		// of the current token as it was - the parser relies on it after "." and "!." at a line break
		if k != formula.SK_EndOfFile {
			type obs struct {
				tok           formula.SyntaxKind
				start, tp, ep int
				val           string
				nl            bool
			}
			read := func() obs {
				return obs{sc.GetToken(), sc.GetStartPos(), sc.GetTokenPos(), sc.GetTextPos(), sc.GetTokenValue(), sc.HasPrecedingLineBreak()}
			}
			before, saved := read(), nerr
			formula.LookHead(sc, func() bool { sc.Scan(); sc.Scan(); return true })
			mid := read()
			formula.TryScan(sc, func() interface{} { sc.Scan(); return nil }) // a nil result rolls back
			nerr = saved
			if after := read(); mid != before || after != before {
				panicked = fmt.Sprintf("speculation did not restore the scanner at token %d: %+v, then %+v / %+v", i, before, mid, after)
				return
			}
		}
		if k == formula.SK_EndOfFile {
			return
		}
	}
	panicked = "scanner does not reach the end of input within len+2 tokens"
	return
}

// tiles: the arithmetic part of the tiling property on the observed token list.
func tiles(text []byte, toks [][]any) string {
	if len(toks) == 0 {
		return "no tokens"
	}
	prevEnd := int64(0)
	for i, t := range toks {
		start, tpos, end := t[1].(int64), t[2].(int64), t[3].(int64)
		if start != prevEnd {
			return fmt.Sprintf("token %d starts at %d, previous ended at %d", i, start, prevEnd)
		}
		if !(start <= tpos && tpos <= end && end <= int64(len(text))) {
			return fmt.Sprintf("token %d offsets out of order", i)
		}
		if t[0] != "EOF" && tpos >= end {
			return fmt.Sprintf("token %d does not advance", i)
		}
		prevEnd = end
	}
	last := toks[len(toks)-1]
	if last[0] != "EOF" || last[3].(int64) != int64(len(text)) {
		return "last token does not end at the end of input"
	}
	return ""
}

type lexFam struct{}

func init() {
	Families["lex"] = func() Family { return lexFam{} }
	Families["lexparse"] = func() Family { return lexParseFam{} }
}

func lexSite(text []byte, at int) string {
	// classify by the first byte of the offending lexeme (after trivia is not known here)
	return fmt.Sprintf("scan:%s", lexemeClass(text, at))
}

func lexemeClass(text []byte, at int) string {
	for at < len(text) && (text[at] == ' ' || text[at] == '\n' || text[at] == '\t') {
		at++
	}
	if at >= len(text) {
		return "eof"
	}
	c := text[at]
	switch {
	case c == '0' && at+1 < len(text) && (text[at+1] == 'x' || text[at+1] == 'X'):
		return "hex-prefix"
	case c >= '0' && c <= '9' || c == '.':
		return "number"
	case c == '\'' || c == '"':
		return "string"
	case c >= 'a' && c <= 'z' || c >= 'A' && c <= 'Z' || c == '_' || c == '$' || c >= 0x80:
		return "word"
	}
	return "operator"
}

func (lexFam) Check(vars map[string]any) Result {
	text, ok := Bytes(vars["text"])
	lx, ok2 := vars["lx"].(map[string]any)
	if !ok || !ok2 {
		return Result{Skip: true}
	}
	expToks, _ := lx["toks"].([]any)
	st, _ := tlaval.Str(lx["st"])
	at, _ := lx["at"].(int64)
	toks, errs, pan := ScanAll(text)
	r := Result{Input: fmt.Sprintf("%q", text), Nontrivial: len(expToks) > 1, Sub: "lex-" + st}
	r.Expected = tlaval.Format(vars["lx"])
	obsList := make([]any, len(toks))
	for i, t := range toks {
		obsList[i] = t
	}
	r.Observed = fmt.Sprintf("toks=%s errs=%v", tlaval.Format(obsList), errs)
	fail := func(site, why string) Result {
		r.OK = false
		r.Site = site
		r.Observed += " :: " + why
		return r
	}
	if pan != nil {
		if st == "free" {
			// no property pins this corner at the scanner level
			r.OK = true
			return r
		}
		return fail("scan:panic-"+lexemeClass(text, int(at)), fmt.Sprintf("scanner panic/abort: %v", pan))
	}
	if why := tiles(text, toks); why != "" {
		return fail("scan:tiling-"+lexemeClass(text, int(at)), why)
	}
	// pinned prefix: every real token starting before the offending lexeme must be the specification's
	n := 0
	for n < len(toks) && (st == "ok" || toks[n][1].(int64) < at) {
		n++
	}
	if st == "ok" {
		n = len(toks)
	}
	if n != len(expToks) {
		return fail(siteOfTokenDiff(text, expToks, toks), fmt.Sprintf("%d pinned tokens observed, specification has %d", n, len(expToks)))
	}
	allowed := 0
	for i := 0; i < n; i++ {
		e := expToks[i].([]any)
		if e[0] == "Num" {
			// the text of a number token's value is representation; its number is C12's business
			e = append(append([]any{}, e[:4]...), toks[i][4], e[5])
		}
		if !tlaval.Equal(e[:6], []any(toks[i])) {
			return fail("scan:"+lexemeClass(text, int(e[2].(int64))), fmt.Sprintf("token %d differs", i))
		}
		// a stray character (kind Unknown) is reported as it is scanned; nothing else may be
		if e[0] == "Unknown" {
			allowed = errs[i]
		}
		if errs[i] != allowed {
			return fail("scan:spurious-error-"+lexemeClass(text, int(e[2].(int64))), fmt.Sprintf("scanner reported an error on well-formed token %d", i))
		}
	}
	if st == "bad" && errs[len(errs)-1] == allowed {
		return fail("scan:unreported-"+lexemeClass(text, int(at)), "malformed lexeme not reported by the scanner")
	}
	r.OK = true
	return r
}

func siteOfTokenDiff(text []byte, exp []any, obs [][]any) string {
	for i := 0; i < len(exp) && i < len(obs); i++ {
		e := exp[i].([]any)
		if !tlaval.Equal(e[:6], []any(obs[i])) {
			return "scan:" + lexemeClass(text, int(e[2].(int64)))
		}
	}
	if len(obs) > 0 {
		i := len(exp)
		if i >= len(obs) {
			i = len(obs) - 1
		}
		return "scan:" + lexemeClass(text, int(obs[i][2].(int64)))
	}
	return "scan:other"
}

type lexParseFam struct{}

func (lexParseFam) Check(vars map[string]any) Result {
	text, ok := Bytes(vars["text"])
	if !ok {
		return Result{Skip: true}
	}
	exp := vars["e"]
	et, _ := exp.([]any)
	obs, _ := ParseObserve(string(text))
	ot, _ := obs.([]any)
	r := Result{Input: fmt.Sprintf("%q", text), Expected: tlaval.Format(exp), Observed: tlaval.Format(obs)}
	r.Nontrivial = len(et) > 0 && et[0] == "OK"
	if len(et) > 0 && et[0] == "FREE" {
		r.Sub = "free"
		r.OK = len(ot) > 0 && (ot[0] == "OK" || ot[0] == "REJECT")
	} else {
		r.Sub = "pinned"
		r.OK = tlaval.Equal(exp, obs)
	}
	if !r.OK {
		at := 0
		if lx, ok := vars["lx"].(map[string]any); ok {
			if st, _ := tlaval.Str(lx["st"]); st != "ok" {
				a, _ := lx["at"].(int64)
				at = int(a)
				r.Site = "parse-lexeme:" + lexemeClass(text, at)
			}
		}
		if len(ot) > 0 && (ot[0] == "PANIC" || ot[0] == "BROKEN") {
			r.Site = "parse:panic"
		}
		if r.Site == "" {
			r.Site = "parse-text:" + firstDiffClass(text)
		}
	}
	return r
}

// firstDiffClass: coarse site for a text whose parse differs although all lexemes are well formed.
func firstDiffClass(text []byte) string {
	hasHex, hasUS, hasEsc := false, false, false
	for i := 0; i < len(text); i++ {
		if text[i] == '0' && i+1 < len(text) && (text[i+1] == 'x' || text[i+1] == 'X') {
			hasHex = true
		}
		if text[i] == '_' && i > 0 && text[i-1] >= '0' && text[i-1] <= '9' {
			hasUS = true
		}
		if text[i] == '\\' {
			hasEsc = true
		}
	}
	switch {
	case hasHex:
		return "hex-prefix"
	case hasUS:
		return "numeric-separator"
	case hasEsc:
		return "escape"
	}
	return "other"
}

// chars family: state = [c, nxt, cls = <<ws, lb, idstart, idpart>>]; the real predicates must
// give exactly cls on every code point of [c, nxt).
type charsFam struct{}

func init() { Families["chars"] = func() Family { return charsFam{} } }

func (charsFam) Check(vars map[string]any) Result {
	c, ok1 := vars["c"].(int64)
	nxt, ok2 := vars["nxt"].(int64)
	cls, ok3 := vars["cls"].([]any)
	if !ok1 || !ok2 || !ok3 || len(cls) != 4 {
		return Result{Skip: true}
	}
	r := Result{Input: fmt.Sprintf("U+%04X..U+%04X", c, nxt-1), Expected: tlaval.Format(vars["cls"]), Nontrivial: true, OK: true, Sub: "interval"}
	for cp := c; cp < nxt; cp++ {
		ru := rune(cp)
		obs := []any{formula.IsWhiteSpace(ru), formula.IsLineBreak(ru), formula.IsIdentifierStart(ru), formula.IsIdentifierPart(ru)}
		if !tlaval.Equal(cls, obs) {
			r.OK = false
			r.Observed = fmt.Sprintf("U+%04X: %s", cp, tlaval.Format(obs))
			r.Site = "chars:class"
			return r
		}
	}
	r.Observed = r.Expected
	return r
}

// lines family (C15): state = text, starts (line-start offsets), lc (<<line, col>> per offset)
type linesFam struct{}

func init() { Families["lines"] = func() Family { return linesFam{} } }

func (linesFam) Check(vars map[string]any) (r Result) {
	text, ok := Bytes(vars["text"])
	starts, ok2 := vars["starts"].([]any)
	lc, ok3 := vars["lc"].([]any)
	if !ok || !ok2 || !ok3 {
		return Result{Skip: true}
	}
	r = Result{Input: fmt.Sprintf("%q", text), Expected: tlaval.Format(vars["starts"]) + " " + tlaval.Format(vars["lc"]), Nontrivial: len(starts) > 1, Sub: "lines"}
	defer func() {
		if x := recover(); x != nil {
			r.OK = false
			r.Observed = fmt.Sprintf("PANIC %v", x)
			r.Site = "lines:panic"
		}
	}()
	got := formula.ComputeLineStarts(text)
	obsStarts := make([]any, len(got))
	for i, g := range got {
		obsStarts[i] = int64(g)
	}
	obsLC := make([]any, 0, len(text)+1)
	obsLC2 := make([]any, 0, len(text)+1)
	for off := 0; off <= len(text); off++ {
		p := formula.PositionToLineAndCharacter(text, off)
		obsLC = append(obsLC, []any{int64(p.Line), int64(p.Column)})
		q := formula.GetLineAndCharacterOfPosition(text, got, off)
		obsLC2 = append(obsLC2, []any{int64(q.Line), int64(q.Column)})
	}
	r.Observed = tlaval.Format(obsStarts) + " " + tlaval.Format(obsLC)
	switch {
	case !tlaval.Equal(starts, obsStarts):
		r.Site = "lines:linestarts"
	case !tlaval.Equal(lc, obsLC):
		r.Site = "lines:position-to-line-col"
	case !tlaval.Equal(lc, obsLC2):
		r.Site = "lines:line-col-of-position"
	default:
		r.OK = true
	}
	return r
}
