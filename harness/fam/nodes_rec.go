package fam

import (
	"flag"
	"fmt"
	"math/big"
	"math/rand"
	"os"
	"strings"

	formula "github.com/aundis/formula"
	"github.com/ericlagergren/decimal"

	"verif/harness/data"
	"verif/harness/proj"
	"verif/harness/tlaval"
)

func init() { Recorders["nodes"] = recordNodes }

type nodeFrame struct {
	node formula.Expression
	kids []any
}

// childRole: the position of child c under parent p in the role scheme of Trace_Nodes.
func childRole(p, c formula.Expression) int {
	switch n := p.(type) {
	case *formula.ParenthesizedExpression, *formula.PrefixUnaryExpression, *formula.TypeOfExpression:
		return 1
	case *formula.SelectorExpression:
		return 0
	case *formula.BinaryExpression:
		if n.Left == c {
			return 1
		}
		return 2
	case *formula.ConditionalExpression:
		switch c {
		case n.Condition:
			return 1
		case n.WhenTrue:
			return 2
		}
		return 3
	case *formula.ArrayLiteralExpression:
		for i := 0; n.Elements != nil && i < n.Elements.Len(); i++ {
			if n.Elements.At(i) == c {
				return i + 1
			}
		}
	case *formula.CallExpression:
		if n.Expression == c {
			return 0
		}
		for i := 0; n.Arguments != nil && i < n.Arguments.Len(); i++ {
			if n.Arguments.At(i) == c {
				return i + 1
			}
		}
	}
	return -1
}

func isPath(e formula.Expression) bool {
	switch n := e.(type) {
	case *formula.Identifier:
		return true
	case *formula.SelectorExpression:
		return isPath(n.Expression)
	}
	return false
}

func nodeEvent(fr *nodeFrame, res interface{}, err error) map[string]any {
	ev := map[string]any{"ev": "node", "kind": "?", "op": "", "name": "", "lit": []any{"", ""}, "n": 0, "spread": false, "assert": false,
		"target": "", "path": false, "kids": fr.kids, "wit": []any{false, []any{}}}
	if fr.kids == nil {
		ev["kids"] = []any{}
	}
	if err != nil {
		ev["res"] = []any{"err"}
	} else {
		ev["res"] = []any{"ok", proj.Value(res)}
	}
	t, _ := pctSafe(proj.Tree(fr.node)).([]any)
	if len(t) > 0 {
		ev["kind"] = t[0]
	}
	switch n := fr.node.(type) {
	case *formula.Identifier:
		ev["name"] = proj.Esc(n.Value)
	case *formula.LiteralExpression:
		ev["lit"] = []any{t[1], t[2]}
	case *formula.PrefixUnaryExpression:
		ev["op"] = t[1]
	case *formula.BinaryExpression:
		ev["op"] = t[1]
		if id, ok := n.Left.(*formula.Identifier); ok && strings.HasPrefix(id.Value, "$") && t[1] == "=" {
			ev["target"] = proj.Esc(id.Value)
		}
		if (t[1] == "pct" || t[1] == "/") && err == nil && len(fr.kids) == 2 {
			ev["wit"] = remainderWitness(fr.kids)
		}
	case *formula.SelectorExpression:
		ev["name"] = t[2]
		ev["assert"] = n.Assert
	case *formula.ArrayLiteralExpression:
		ev["n"] = n.Elements.Len()
	case *formula.CallExpression:
		ev["n"] = n.Arguments.Len()
		ev["spread"] = n.DotDotDotToken != nil
		ev["path"] = isPath(n.Expression)
	}
	return ev
}

// remainderWitness: trunc(a / b) of the two observed operand values (math/big), verified by TLC through a = w*b + r.
func remainderWitness(kids []any) []any {
	val := func(k any) *big.Rat {
		kk, _ := k.([]any)
		if len(kk) != 2 {
			return nil
		}
		r, _ := kk[1].([]any)
		if len(r) != 2 || r[0] != "ok" {
			return nil
		}
		v, _ := r[1].([]any)
		if len(v) != 4 || v[0] != "num" {
			return nil
		}
		txt, ok := proj.DecText([]any{v[1], v[2], v[3]})
		if !ok {
			return nil
		}
		q, ok := new(big.Rat).SetString(txt)
		if !ok {
			return nil
		}
		return q
	}
	x, y := val(kids[0]), val(kids[1])
	if x == nil || y == nil || y.Sign() == 0 {
		return []any{false, []any{}}
	}
	q := new(big.Rat).Quo(x, y)
	w := new(big.Int).Quo(q.Num(), q.Denom())
	ds := []any{}
	if w.Sign() != 0 {
		for _, c := range new(big.Int).Abs(w).String() {
			ds = append(ds, int64(c-'0'))
		}
	}
	return []any{w.Sign() < 0, ds}
}

var _ = decimal.Context128

// recordNodes: random programs evaluated with the resolve hook reporting every node.
func recordNodes(args []string) int {
	fs := flag.NewFlagSet("nodes", flag.ExitOnError)
	out := fs.String("out", "", "output ndjson")
	seed := fs.Int64("seed", 1, "seed")
	n := fs.Int("n", 500, "programs")
	one := fs.String("one", "", "re-execute the program of this event")
	profile := fs.String("profile", "all", "all | arith (long literals, wide exponents, arithmetic and numeric builtins)")
	fs.Parse(args)
	desc, _ := tlaval.AsMap(progDataDesc)
	var evs []map[string]any
	runOne := func(text string) error {
		src, err := formula.ParseSourceCode([]byte(text))
		if err != nil {
			return err
		}
		h := &HostLog{}
		dm, err := data.BuildMap(desc, h)
		if err != nil {
			return err
		}
		r := formula.NewRunner()
		r.SetThis(dm)
		evs = append(evs, map[string]any{"ev": "start", "data": desc, "text": text, "input": text, "site": "nodes"})
		var stack []*nodeFrame
		var local []map[string]any
		saved := formula.VerifResolveHook
		formula.VerifResolveHook = func(rr *formula.Runner, v formula.Expression, res *interface{}, perr *error) func() {
			if rr != r {
				return func() {}
			}
			fr := &nodeFrame{node: v}
			stack = append(stack, fr)
			return func() {
				// a panic below this node unwinds through the hook: the node fails (Resolve turns the panic into
				// the evaluation's error); observe it and let it continue
				if p := recover(); p != nil {
					stack = stack[:len(stack)-1]
					ev := nodeEvent(fr, nil, fmt.Errorf("panic: %v", p))
					ev["text"], ev["input"], ev["site"] = text, fmt.Sprintf("%s  (node %v %v)", text, ev["kind"], ev["op"]), fmt.Sprintf("nodes:%v:%v", ev["kind"], ev["op"])
					local = append(local, ev)
					if len(stack) > 0 {
						pp := stack[len(stack)-1]
						pp.kids = append(pp.kids, []any{childRole(pp.node, v), ev["res"]})
					}
					panic(p)
				}
				stack = stack[:len(stack)-1]
				ev := nodeEvent(fr, *res, *perr)
				ev["text"], ev["input"], ev["site"] = text, fmt.Sprintf("%s  (node %v %v)", text, ev["kind"], ev["op"]), fmt.Sprintf("nodes:%v:%v", ev["kind"], ev["op"])
				local = append(local, ev)
				if len(stack) > 0 {
					p := stack[len(stack)-1]
					p.kids = append(p.kids, []any{childRole(p.node, v), ev["res"]})
				}
			}
		}
		func() {
			defer func() { recover() }()
			safeResolve(r, src.Expression)
		}()
		formula.VerifResolveHook = saved
		evs = append(evs, local...)
		return nil
	}
	if *one != "" {
		e, err := readEvent(*one)
		if err == nil {
			err = runOne(fmt.Sprint(e["text"]))
		}
		if err != nil {
			fmt.Fprintln(os.Stderr, err)
			return 2
		}
	} else {
		rng := rand.New(rand.NewSource(*seed))
		for k := 0; k < *n; {
			g := &progGen{rng: rng, divs: -3, arith: *profile == "arith"} // several divisions per program: each node is judged on its own
			text := g.gen(2 + rng.Intn(3))
			if len(text) > 300 {
				continue
			}
			if err := runOne(text); err != nil {
				continue
			}
			k++
		}
	}
	if err := writeEvents(*out, evs); err != nil {
		fmt.Fprintln(os.Stderr, err)
		return 2
	}
	return 0
}
