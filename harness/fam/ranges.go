package fam

import (
	"fmt"
	"hash/fnv"
	"strings"

	formula "github.com/aundis/formula"

	"verif/harness/proj"
	"verif/harness/tlaval"
)

// ranges family (C15): state = s (tokens), e = <<"OK", tree>>, spans = <<path, kind, first, last>>*.
// The tokens are rendered with varied trivia (seeded by the token sequence); every node of the
// real tree must have pos = start (incl. leading trivia) of its first token and end = end of its
// last token, and the text of every expression node must parse on its own to the same subtree.
type rangesFam struct{}

func init() { Families["ranges"] = func() Family { return rangesFam{} } }

var triviaChoices = []string{" ", "  ", "\t", " \t ", " ", " \n ", "\r\n", " "}

// renderVaried returns the text and, per token, start (incl. trivia) and end offsets.
func renderVaried(s []any) (string, []int, []int, error) {
	h := fnv.New32a()
	for _, t := range s {
		h.Write([]byte(tlaval.Format(t)))
	}
	seed := h.Sum32()
	next := func() uint32 { seed = seed*1664525 + 1013904223; return seed >> 8 }
	var sb strings.Builder
	starts, ends := make([]int, len(s)), make([]int, len(s))
	for i, t := range s {
		tt := t.([]any)
		k, _ := tlaval.Str(tt[0])
		nl, _ := tt[2].(bool)
		starts[i] = sb.Len()
		// trivia before the token
		var tr string
		lineBreakOK := nl || !(k == "." || k == "!." || k == "(")
		for {
			tr = triviaChoices[next()%uint32(len(triviaChoices))]
			hasLB := strings.ContainsAny(tr, "\n\r ")
			if nl && !hasLB {
				continue
			}
			if hasLB && !lineBreakOK {
				continue
			}
			break
		}
		if i == 0 && !nl && next()%2 == 0 {
			tr = ""
		}
		if i == 0 && next()%4 == 0 {
			tr = "\ufeff" + tr // a byte order mark is white space; offsets count its three bytes
		}
		sb.WriteString(tr)
		one, err := RenderTokens([]any{[]any{tt[0], tt[1], false}})
		if err != nil {
			return "", nil, nil, err
		}
		sb.WriteString(one)
		ends[i] = sb.Len()
	}
	if next()%2 == 0 {
		sb.WriteString(" \n")
	}
	return sb.String(), starts, ends, nil
}

type realNode struct {
	n    formula.Node
	expr formula.Expression
}

// walkReal collects the real tree's nodes by the path scheme of FGrammar.Spans.
func walkReal(e formula.Expression, path string, out map[string]realNode) {
	if e == nil {
		return
	}
	out[path] = realNode{e, e}
	sub := func(i int, c formula.Expression) { walkReal(c, fmt.Sprintf("%s/%d", path, i), out) }
	switch n := e.(type) {
	case *formula.ParenthesizedExpression:
		sub(1, n.Expression)
	case *formula.ArrayLiteralExpression:
		if n.Elements != nil {
			for i := 0; i < n.Elements.Len(); i++ {
				sub(i+1, n.Elements.At(i))
			}
		}
	case *formula.SelectorExpression:
		sub(0, n.Expression)
		if n.Name != nil {
			out[path+"/9"] = realNode{n.Name, nil}
		}
	case *formula.CallExpression:
		sub(0, n.Expression)
		if n.Arguments != nil {
			for i := 0; i < n.Arguments.Len(); i++ {
				sub(i+1, n.Arguments.At(i))
			}
		}
	case *formula.PrefixUnaryExpression:
		sub(1, n.Operand)
	case *formula.TypeOfExpression:
		sub(1, n.Expression)
	case *formula.ConditionalExpression:
		sub(1, n.Condition)
		sub(2, n.WhenTrue)
		sub(3, n.WhenFalse)
	case *formula.BinaryExpression:
		sub(1, n.Left)
		sub(2, n.Right)
	}
}

func pathKey(p any) string {
	var sb strings.Builder
	for _, x := range p.([]any) {
		fmt.Fprintf(&sb, "/%d", x.(int64))
	}
	return sb.String()
}

func (rangesFam) Check(vars map[string]any) Result {
	s, ok := vars["s"].([]any)
	spans, ok2 := vars["spans"].([]any)
	e, _ := vars["e"].([]any)
	if !ok || !ok2 || len(spans) == 0 || len(e) != 2 {
		return Result{Skip: true}
	}
	if p, ok := vars["pin"].(bool); ok && !p {
		return Result{Skip: true}
	}
	text, starts, ends, err := renderVaried(s)
	if err != nil {
		return Result{Input: fmt.Sprint(s), Observed: err.Error(), Site: "harness"}
	}
	r := Result{Input: fmt.Sprintf("%q", text), Nontrivial: len(spans) > 1, Sub: "ranges", Expected: tlaval.Format(vars["spans"])}
	obs, src := ParseObserve(text)
	if !tlaval.Equal(proj.T{"OK", CanonTree(e[1])}, obs) {
		r.Observed = "tree under varied trivia: " + tlaval.Format(obs)
		r.Site = "ranges:spacing"
		return r
	}
	if src.Pos() != 0 || src.End() != len(text) {
		r.Observed = fmt.Sprintf("source node range [%d,%d) for a text of %d bytes", src.Pos(), src.End(), len(text))
		r.Site = "ranges:source"
		return r
	}
	real := map[string]realNode{}
	walkReal(src.Expression, "", real)
	if len(real) != len(spans) {
		r.Observed = fmt.Sprintf("%d nodes in the real tree, %d in the specification's", len(real), len(spans))
		r.Site = "ranges:nodes"
		return r
	}
	for _, sp := range spans {
		t := sp.([]any)
		key := pathKey(t[0])
		first, last := int(t[2].(int64)), int(t[3].(int64))
		rn, ok := real[key]
		if !ok {
			r.Observed = "no real node at path " + key
			r.Site = "ranges:nodes"
			return r
		}
		wantPos, wantEnd := starts[first-1], ends[last-1]
		if rn.n.Pos() != wantPos || rn.n.End() != wantEnd {
			r.Observed = fmt.Sprintf("node %s (%v): range [%d,%d), expected [%d,%d)", key, t[1], rn.n.Pos(), rn.n.End(), wantPos, wantEnd)
			r.Site = fmt.Sprintf("ranges:%v", t[1])
			return r
		}
		if rn.n.Pos() < 0 || rn.n.End() > len(text) || rn.n.Pos() > rn.n.End() {
			r.Observed = fmt.Sprintf("node %s range out of the text", key)
			r.Site = "ranges:bounds"
			return r
		}
		if rn.expr == nil {
			continue // a member name is not an expression: ranges only
		}
		// the node's own text parses to the same subtree
		subObs, _ := ParseObserve(text[rn.n.Pos():rn.n.End()])
		want := proj.T{"OK", proj.Tree(rn.expr)}
		if !tlaval.Equal(want, subObs) {
			r.Observed = fmt.Sprintf("text of node %s %q re-parses to %s, the node is %s", key, text[rn.n.Pos():rn.n.End()], tlaval.Format(subObs), tlaval.Format(want))
			r.Site = "ranges:reparse"
			return r
		}
	}
	r.OK = true
	r.Observed = "ranges conform"
	return r
}
