package fam

import (
	"fmt"
	"sort"
	"strings"

	formula "github.com/aundis/formula"

	"verif/harness/tlaval"
)

// fields family (C10): state = toks, tree, fields = <<Fields, FieldsNotLocal, Calls, UsesThis>>
// with Fields = <<"ok", lower, upper>> | <<"refuse">> (sets of paths, a path is a tuple of names).
type fieldsFam struct{}

func init() { Families["fields"] = func() Family { return fieldsFam{} } }

func pathSet(v any) (map[string]bool, bool) {
	s, ok := v.(tlaval.Set)
	if !ok {
		return nil, false
	}
	out := map[string]bool{}
	for _, e := range s.Elems {
		p, ok := e.([]any)
		if !ok {
			return nil, false
		}
		names := make([]string, len(p))
		for i, n := range p {
			names[i], _ = tlaval.Str(n)
		}
		out[strings.Join(names, ".")] = true
	}
	return out, true
}

func checkFieldSet(exp any, got []string, err error) (bool, string) {
	et, _ := exp.([]any)
	if len(et) == 0 {
		return false, "bad expectation"
	}
	if et[0] == "refuse" {
		if err == nil {
			return false, fmt.Sprintf("analysis accepted (%v) a formula it must refuse", got)
		}
		return true, "refused"
	}
	if err != nil {
		return false, "analysis refused: " + err.Error()
	}
	lower, ok1 := pathSet(et[1])
	upper, ok2 := pathSet(et[2])
	if !ok1 || !ok2 {
		return false, "bad expectation sets"
	}
	seen := map[string]bool{}
	for _, g := range got {
		if seen[g] {
			return false, "duplicate entry " + g
		}
		seen[g] = true
		if !upper[g] {
			return false, "reports " + g + " which the formula does not read"
		}
	}
	for l := range lower {
		if !seen[l] {
			return false, "misses " + l
		}
	}
	return true, ""
}

func (fieldsFam) Check(vars map[string]any) Result {
	toks, ok := vars["toks"].([]any)
	fl, ok2 := vars["fields"].([]any)
	if !ok || !ok2 || len(toks) == 0 || len(fl) < 2 {
		return Result{Skip: true}
	}
	text, err := RenderTokens(toks)
	if err != nil {
		return Result{Input: fmt.Sprint(toks), Observed: err.Error(), Site: "harness"}
	}
	r := Result{Input: text, Expected: tlaval.Format(vars["fields"]), Nontrivial: true, Sub: "fields"}
	src, perr := formula.ParseSourceCode([]byte(text))
	if perr != nil {
		r.Observed = "parse error: " + perr.Error()
		r.Site = "fields:parse"
		return r
	}
	var all, nonlocal []string
	var e1, e2 error
	func() {
		defer func() {
			if x := recover(); x != nil {
				e1 = fmt.Errorf("PANIC %v", x)
				r.Site = "fields:panic"
			}
		}()
		all, e1 = formula.ResolveReferenceFields(src)
		nonlocal, e2 = formula.ResolveReferenceFieldsNotLocal(src)
	}()
	sort.Strings(all)
	sort.Strings(nonlocal)
	r.Observed = fmt.Sprintf("all=%v err=%v nonlocal=%v err=%v", all, e1, nonlocal, e2)
	if r.Site == "fields:panic" {
		return r
	}
	okA, whyA := checkFieldSet(fl[0], all, e1)
	okN, whyN := checkFieldSet(fl[1], nonlocal, e2)
	r.OK = okA && okN
	if !r.OK {
		r.Observed += " :: " + whyA + " " + whyN
		r.Site = "fields:" + treeHead(vars["tree"])
	}
	return r
}
