// Package fam holds the generic replay driver: states dumped by a TLC model run are
// executed one by one against the real code and the projected observation is
// compared with the value the specification computed.
package fam

import (
	"encoding/json"
	"fmt"
	"io"
	"os"
	"runtime"
	"sort"
	"strings"
	"sync"
	"sync/atomic"
	"time"

	"verif/harness/tlaval"
)

// Result of executing one dumped state.
type Result struct {
	Skip       bool   // state carries no case (e.g. initial state) or is unpinned
	Nontrivial bool   // counts towards distinct_nontrivial
	OK         bool   // observation conforms
	Input      string // human-readable input
	Expected   string
	Observed   string
	Site       string // stable classification of the failing site (known findings)
	Sub        string // sub-property / clause name (coverage statistics)
}

// Family executes dumped states of one model against the real code.
type Family interface {
	Check(vars map[string]any) Result
}

var Families = map[string]func() Family{}

type Mismatch struct {
	State    string `json:"state"` // the dumped state, re-parsable
	Input    string `json:"input"`
	Expected string `json:"expected"`
	Observed string `json:"observed"`
	Site     string `json:"site"`
	Sub      string `json:"sub,omitempty"`
}

type Report struct {
	Family     string         `json:"family"`
	States     int64          `json:"states"`
	Cases      int64          `json:"cases"`
	Nontrivial int64          `json:"nontrivial"`
	Skipped    int64          `json:"skipped"`
	Mismatches []Mismatch     `json:"mismatches"`
	MismatchN  int64          `json:"mismatch_count"`
	BySite     map[string]int `json:"by_site"`
	BySub      map[string]int `json:"by_sub"`
	Samples    []string       `json:"samples"`
	Hang       *Mismatch      `json:"hang,omitempty"`
	WallS      float64        `json:"wall_s"`
}

func FormatState(vars map[string]any) string {
	names := make([]string, 0, len(vars))
	for k := range vars {
		names = append(names, k)
	}
	sort.Strings(names)
	var sb strings.Builder
	sb.WriteString("State 1:\n")
	for _, n := range names {
		sb.WriteString("/\\ " + n + " = " + tlaval.Format(vars[n]) + "\n")
	}
	return sb.String()
}

const maxKeep = 400    // mismatches kept in full
const perSiteKeep = 25 // per site

// Replay runs every state of the dump through the family.
func Replay(name string, dump io.Reader, workers int, out io.Writer) (int, error) {
	mk, ok := Families[name]
	if !ok {
		return 2, fmt.Errorf("unknown family %q", name)
	}
	t0 := time.Now()
	if workers <= 0 {
		workers = runtime.NumCPU()
	}
	// VERIF_MARK: the case being executed is written to this file first, one worker, so that the case
	// during which the process dies (a fatal error of the Go runtime cannot be recovered) is known
	markFile := os.Getenv("VERIF_MARK")
	if markFile != "" {
		workers = 1
	}
	rep := Report{Family: name, Mismatches: []Mismatch{}, Samples: []string{}, BySite: map[string]int{}, BySub: map[string]int{}}
	var mu sync.Mutex
	type job struct{ vars map[string]any }
	jobs := make(chan job, 4096)
	var wg sync.WaitGroup
	// watchdog: a worker that stays on one case for more than hangAfter is reported
	type slot struct {
		start atomic.Int64
		vars  atomic.Pointer[map[string]any]
	}
	slots := make([]*slot, workers)
	const hangAfter = 20 * time.Second
	done := make(chan struct{})
	for w := 0; w < workers; w++ {
		sl := &slot{}
		slots[w] = sl
		wg.Add(1)
		go func() {
			defer wg.Done()
			f := mk()
			for j := range jobs {
				v := j.vars
				if markFile != "" {
					os.WriteFile(markFile, []byte(FormatState(v)), 0o644)
				}
				sl.vars.Store(&v)
				sl.start.Store(time.Now().UnixNano())
				r := f.Check(j.vars)
				sl.start.Store(0)
				mu.Lock()
				if r.Skip {
					rep.Skipped++
					mu.Unlock()
					continue
				}
				rep.Cases++
				if r.Nontrivial {
					rep.Nontrivial++
				}
				if r.Sub != "" {
					rep.BySub[r.Sub]++
				}
				if len(rep.Samples) < 5 && r.OK && r.Nontrivial && rep.Cases%97 == 1 {
					rep.Samples = append(rep.Samples, r.Input+"  =>  "+r.Observed)
				}
				if !r.OK {
					rep.MismatchN++
					rep.BySite[r.Site]++
					if len(rep.Mismatches) < maxKeep && rep.BySite[r.Site] <= perSiteKeep {
						rep.Mismatches = append(rep.Mismatches, Mismatch{State: FormatState(j.vars), Input: r.Input,
							Expected: r.Expected, Observed: r.Observed, Site: r.Site, Sub: r.Sub})
					}
				}
				mu.Unlock()
			}
		}()
	}
	go func() {
		tk := time.NewTicker(500 * time.Millisecond)
		defer tk.Stop()
		for {
			select {
			case <-done:
				return
			case <-tk.C:
				now := time.Now().UnixNano()
				for _, sl := range slots {
					st := sl.start.Load()
					if st != 0 && now-st > int64(hangAfter) {
						mu.Lock()
						vp := sl.vars.Load()
						rep.Hang = &Mismatch{State: FormatState(*vp), Input: "(hang)", Observed: "<<\"HANG\">>", Site: "hang"}
						rep.WallS = time.Since(t0).Seconds()
						b, _ := json.Marshal(rep)
						out.Write(append(b, '\n'))
						os.Exit(3)
					}
				}
			}
		}
	}()
	rd := tlaval.NewReader(dump)
	var perr error
	for {
		st, err := rd.NextState()
		if err == io.EOF {
			break
		}
		if err != nil {
			perr = err
			break
		}
		rep.States++
		jobs <- job{st.Vars}
	}
	close(jobs)
	wg.Wait()
	close(done)
	if perr != nil {
		return 2, perr
	}
	rep.WallS = time.Since(t0).Seconds()
	b, _ := json.Marshal(rep)
	out.Write(append(b, '\n'))
	if rep.MismatchN > 0 {
		return 1, nil
	}
	return 0, nil
}

// One re-executes a single state (replay file) and prints the result.
func One(name string, state io.Reader, out io.Writer) (int, error) {
	mk, ok := Families[name]
	if !ok {
		return 2, fmt.Errorf("unknown family %q", name)
	}
	rd := tlaval.NewReader(state)
	st, err := rd.NextState()
	if err != nil {
		return 2, err
	}
	type res struct{ r Result }
	ch := make(chan Result, 1)
	go func() { ch <- mk().Check(st.Vars) }()
	var r Result
	select {
	case r = <-ch:
	case <-time.After(30 * time.Second):
		r = Result{OK: false, Input: "(hang)", Observed: "<<\"HANG\">>", Site: "hang"}
	}
	b, _ := json.Marshal(map[string]any{"ok": r.OK || r.Skip, "input": r.Input, "expected": r.Expected, "observed": r.Observed, "site": r.Site})
	out.Write(append(b, '\n'))
	if r.OK || r.Skip {
		return 0, nil
	}
	return 1, nil
}
