package fam

import (
	"context"
	"fmt"
	"io"
	"os"

	formula "github.com/aundis/formula"
)

// Recorders generate inputs, run the real code and write ndjson events for TLC
// trace validation.
var Recorders = map[string]func(args []string) int{}

func Record(name string, args []string) int {
	f, ok := Recorders[name]
	if !ok {
		fmt.Fprintf(os.Stderr, "fv: unknown recorder %q\n", name)
		return 2
	}
	return f(args)
}

// Canary proves the guarded hooks are live in this build (exit 0) or not (exit 2).
func Canary() int {
	scans, nodes := 0, 0
	formula.VerifScanHook = func(s *formula.Scanner) { scans++ }
	formula.VerifResolveHook = func(r *formula.Runner, v formula.Expression, res *interface{}, err *error) func() {
		return func() { nodes++ }
	}
	saved := formula.VerifResolveHook
	defer func() { formula.VerifScanHook = nil; formula.VerifResolveHook = saved }()
	src, err := formula.ParseSourceCode([]byte("1 + 2"))
	if err != nil {
		fmt.Println("canary: parse failed:", err)
		return 2
	}
	_, err = formula.NewRunner().Resolve(context.Background(), src.Expression)
	if err != nil || scans < 4 || nodes != 3 {
		fmt.Printf("canary: hooks not live (scans=%d nodes=%d err=%v)\n", scans, nodes, err)
		return 2
	}
	fmt.Printf("canary: ok scans=%d nodes=%d\n", scans, nodes)
	return 0
}

type byteReader struct {
	b []byte
	i int
}

func (r *byteReader) Read(p []byte) (int, error) {
	if r.i >= len(r.b) {
		return 0, io.EOF
	}
	n := copy(p, r.b[r.i:])
	r.i += n
	return n, nil
}

func bytesReader(b []byte) *byteReader { return &byteReader{b: b} }
