package fam

import (
	"flag"
	"fmt"
	"os"
	"reflect"
	"runtime"
	"sort"
	"strings"
	"sync"
	"time"

	formula "github.com/aundis/formula"

	"verif/harness/data"
	"verif/harness/proj"
	"verif/harness/tlaval"
)

// conc family (C09): a terminal state of MC_Conc carries a complete schedule (sequence of goroutine
// numbers, one entry per gate). The goroutines evaluate trees that are shared by the whole process;
// a blocking resolve hook makes them pass their gates exactly in the order of the schedule.
type concFam struct{}

func init() {
	Families["conc"] = func() Family { return concFam{} }
	Recorders["conc"] = recordConc
}

var concTexts = []string{"a + b * 2", "$t = a, $t + b", "a + b", "[regexp(s1, 'ab'), regexp(s2, '^(a)*$'), regexp(s2, 'ab')]", "(m).a + b",
	"round(a) * 1000 + roundBank(b)", "round(a) + 1", "lower(s1)", "$c = ($c ?? 0) + 1, $c", "hour(useTimezone(t, z))", "len(toString(m))", "st.A + st.B.a"}
var concParseTexts = []string{"'\\u4F11\\u4F34'+'\\x41'", "'\\u0041\\x62\\u4e2d'", "1 +\n (2 *", "1e1_0 + 2.5e-3", "a ? b", "f(p ? q)"}

// concParseBytes: the same byte buffers are handed to every goroutine (a caller may parse one text from many goroutines);
// parsing must not write to them.
var concParseBytes = func() [][]byte {
	var out [][]byte
	for _, t := range concParseTexts {
		out = append(out, []byte(t))
	}
	return out
}()
var concDatas = mustParse(`<< [a |-> <<"int", 1>>, b |-> <<"int", 2>>],
  [a |-> <<"dec", FALSE, <<1>>, 1>>, b |-> <<"f64", FALSE, <<5>>, -1>>],
  [a |-> <<"int64", FALSE, <<9,0,0,7,1,9,9,2,5,4,7,4,0,9,9,3>>>>, b |-> <<"int", -3>>],
  [s1 |-> <<"str", <<99,97,98>>>>, s2 |-> <<"str", <<97,97,97>>>>],
  [s1 |-> <<"str", <<98,97>>>>, s2 |-> <<"str", <<97,98>>>>],
  [m |-> <<"map", [a |-> <<"int", 4>>]>>, b |-> <<"dec", FALSE, <<1,5>>, -1>>],
  [a |-> <<"dec", FALSE, <<2,6>>, -1>>, b |-> <<"dec", FALSE, <<4,5>>, -1>>],
  [t |-> <<"time", 19000, 3600000, 0>>, z |-> <<"str", <<65,115,105,97,47,84,111,107,121,111>>>>],
  [t |-> <<"time", 19000, 3600000, 0>>, z |-> <<"str", <<69,117,114,111,112,101,47,80,97,114,105,115>>>>],
  [t |-> <<"time", 19000, 3600000, 0>>, z |-> <<"str", <<65,109,101,114,105,99,97,47,67,104,105,99,97,103,111>>>>],
  [t |-> <<"time", 19000, 3600000, 0>>, z |-> <<"str", <<65,102,114,105,99,97,47,67,97,105,114,111>>>>],
  [t |-> <<"time", 19000, 3600000, 0>>, z |-> <<"str", <<80,97,99,105,102,105,99,47,65,117,99,107,108,97,110,100>>>>],
  [t |-> <<"time", 19000, 3600000, 0>>, z |-> <<"str", <<65,115,105,97,47,75,111,108,107,97,116,97>>>>],
            [t |-> <<"time", 19000, 3600000, 0>>, z |-> <<"str", <<65,109,101,114,105,99,97,47,68,101,110,118,101,114>>>>],
            [t |-> <<"time", 19000, 3600000, 0>>, z |-> <<"str", <<65,109,101,114,105,99,97,47,83,97,111,95,80,97,117,108,111>>>>],
            [t |-> <<"time", 19000, 3600000, 0>>, z |-> <<"str", <<69,117,114,111,112,101,47,66,101,114,108,105,110>>>>],
            [t |-> <<"time", 19000, 3600000, 0>>, z |-> <<"str", <<69,117,114,111,112,101,47,77,97,100,114,105,100>>>>],
            [t |-> <<"time", 19000, 3600000, 0>>, z |-> <<"str", <<65,115,105,97,47,68,117,98,97,105>>>>],
            [t |-> <<"time", 19000, 3600000, 0>>, z |-> <<"str", <<65,115,105,97,47,83,101,111,117,108>>>>],
            [t |-> <<"time", 19000, 3600000, 0>>, z |-> <<"str", <<65,117,115,116,114,97,108,105,97,47,83,121,100,110,101,121>>>>],
            [t |-> <<"time", 19000, 3600000, 0>>, z |-> <<"str", <<65,102,114,105,99,97,47,76,97,103,111,115>>>>],
            [t |-> <<"time", 19000, 3600000, 0>>, z |-> <<"str", <<65,109,101,114,105,99,97,47,84,111,114,111,110,116,111>>>>],
            [t |-> <<"time", 19000, 3600000, 0>>, z |-> <<"str", <<69,117,114,111,112,101,47,82,111,109,101>>>>],
            [t |-> <<"time", 19000, 3600000, 0>>, z |-> <<"str", <<65,115,105,97,47,66,97,110,103,107,111,107>>>>],
            [t |-> <<"time", 19000, 3600000, 0>>, z |-> <<"str", <<65,109,101,114,105,99,97,47,76,105,109,97>>>>],
            [t |-> <<"time", 19000, 3600000, 0>>, z |-> <<"str", <<69,117,114,111,112,101,47,79,115,108,111>>>>],
            [t |-> <<"time", 19000, 3600000, 0>>, z |-> <<"str", <<65,115,105,97,47,77,97,110,105,108,97>>>>],
            [t |-> <<"time", 19000, 3600000, 0>>, z |-> <<"str", <<80,97,99,105,102,105,99,47,70,105,106,105>>>>],
            [t |-> <<"time", 19000, 3600000, 0>>, z |-> <<"str", <<65,109,101,114,105,99,97,47,66,111,103,111,116,97>>>>],
            [t |-> <<"time", 19000, 3600000, 0>>, z |-> <<"str", <<69,117,114,111,112,101,47,65,116,104,101,110,115>>>>],
            [t |-> <<"time", 19000, 3600000, 0>>, z |-> <<"str", <<65,115,105,97,47,75,97,114,97,99,104,105>>>>],
  [st |-> <<"struct", [A |-> <<"int", 4>>, B |-> <<"map", [a |-> <<"f64", FALSE, <<2,5>>, -1>>]>>, N |-> <<"nilptr">>, P |-> <<"str", <<112>>>>], <<"c">>>>] >>`).([]any)

var (
	sharedOnce  sync.Once
	sharedTrees []*formula.SourceCode
)

// SharedTrees parses the shared formulas once per process.
func SharedTrees() []*formula.SourceCode {
	sharedOnce.Do(func() {
		for _, t := range concTexts {
			src, err := formula.ParseSourceCode([]byte(t))
			if err != nil {
				panic(err)
			}
			sharedTrees = append(sharedTrees, src)
		}
	})
	return sharedTrees
}

// freshSharedTrees parses the shared formulas again (trees nobody has used yet).
func freshSharedTrees() []*formula.SourceCode {
	var ts []*formula.SourceCode
	for _, t := range concTexts {
		src, err := formula.ParseSourceCode([]byte(t))
		if err != nil {
			panic(err)
		}
		ts = append(ts, src)
	}
	return ts
}

// roundStruct: a value of a struct type nobody has seen before (one new type per round): the fields of data.S1 plus
// filler fields the projection skips. Whatever the library remembers per struct type is filled for this type while all
// goroutines of the round ask at once.
func roundStruct(round int) interface{} {
	anyT := reflect.TypeOf((*interface{})(nil)).Elem()
	fs := []reflect.StructField{{Name: "A", Type: anyT}, {Name: "B", Type: anyT}, {Name: "N", Type: anyT}, {Name: "P", Type: anyT},
		{Name: "c", Type: reflect.TypeOf(0), PkgPath: "verif/harness/fam"}}
	for k := 0; k < 120; k++ {
		fs = append(fs, reflect.StructField{Name: fmt.Sprintf("F%03d", k), Type: reflect.TypeOf(0), Tag: `verif:"-"`})
	}
	fs = append(fs, reflect.StructField{Name: fmt.Sprintf("R%d", round), Type: reflect.TypeOf(0), Tag: `verif:"-"`})
	v := reflect.New(reflect.StructOf(fs)).Elem()
	v.Field(0).Set(reflect.ValueOf(4))
	v.Field(1).Set(reflect.ValueOf(map[string]interface{}{"a": 2.5}))
	v.Field(2).Set(reflect.ValueOf((*data.S1)(nil)))
	v.Field(3).Set(reflect.ValueOf("p"))
	return v.Interface()
}

func concOutcome(r *formula.Runner, e formula.Expression) any {
	t := ResolveTop(r, e)
	gateWatch.Delete(r) // reading the runner's state afterwards is not part of the scheduled evaluation
	switch {
	case t.Panic != nil:
		return []any{"PANIC", fmt.Sprint(t.Panic)}
	case t.Err != nil:
		return []any{"err", RunnerState(r)}
	}
	return []any{"ok", proj.Value(t.Root), RunnerState(r)}
}

func workload(w any) (kind string, ti, di int64) {
	t, _ := w.([]any)
	kind, _ = tlaval.Str(t[0])
	ti, _ = t[1].(int64)
	if len(t) > 2 {
		di, _ = t[2].(int64)
	}
	return
}

func (concFam) Check(vars map[string]any) Result {
	sched, ok := vars["sched"].([]any)
	pcs, ok2 := vars["pc"].([]any)
	resExp, ok3 := vars["res"].([]any)
	if !ok || !ok2 || !ok3 || len(sched) == 0 {
		return Result{Skip: true}
	}
	for _, r := range resExp {
		if t, _ := r.([]any); len(t) == 1 {
			return Result{Skip: true} // not a terminal state: some goroutine still running
		}
	}
	trees := SharedTrees()
	G := len(pcs)
	// which workload each goroutine runs: recover it from the expected result is not possible; the
	// model's constant is mirrored by the number of gates (pc) and passed along in `local`/`res`
	wl, ok := vars["wl"].([]any)
	if !ok {
		wl = concWorkloadsByGates(pcs)
	}
	if wl == nil {
		return Result{Input: fmt.Sprint(pcs), Observed: "unknown workload set", Site: "harness"}
	}
	type gstate struct {
		arrive chan struct{}
		permit chan struct{}
		done   chan any
	}
	gs := make([]*gstate, G)
	for g := 0; g < G; g++ {
		gs[g] = &gstate{arrive: make(chan struct{}), permit: make(chan struct{}), done: make(chan any, 1)}
	}
	for g := 0; g < G; g++ {
		kind, ti, di := workload(wl[g])
		_ = kind
		st := gs[g]
		dm, err := data.BuildMap(concDatas[di-1], nil)
		if err != nil {
			return Result{Input: "data", Observed: err.Error(), Site: "harness"}
		}
		r := formula.NewRunner()
		r.SetThis(dm)
		installHooks()
		gateWatch.Store(r, func() { st.arrive <- struct{}{}; <-st.permit })
		go func(r *formula.Runner, e formula.Expression) {
			defer gateWatch.Delete(r)
			st.done <- concOutcome(r, e)
		}(r, trees[ti-1].Expression)
	}
	res := make([]any, G)
	finished := make([]bool, G)
	atGate := make([]bool, G)
	waitFor := func(g int) error { // until goroutine g is at a gate or done
		if atGate[g] || finished[g] {
			return nil
		}
		select {
		case <-gs[g].arrive:
			atGate[g] = true
		case o := <-gs[g].done:
			res[g], finished[g] = o, true
		case <-time.After(20 * time.Second):
			return fmt.Errorf("goroutine %d neither reached a gate nor finished", g+1)
		}
		return nil
	}
	r := Result{Input: fmt.Sprintf("schedule %v", sched), Nontrivial: true, Sub: fmt.Sprintf("G%d", G), Expected: tlaval.Format(vars["res"])}
	for _, s := range sched {
		g := int(s.(int64)) - 1
		if err := waitFor(g); err != nil {
			r.Observed, r.Site = err.Error(), "conc:hang"
			return r
		}
		if finished[g] {
			r.Observed = fmt.Sprintf("goroutine %d finished after fewer gates than the model has", g+1)
			r.Site = "harness"
			return r
		}
		atGate[g] = false
		gs[g].permit <- struct{}{}
		if err := waitFor(g); err != nil { // runs until its next gate or its end before anyone else moves
			r.Observed, r.Site = err.Error(), "conc:hang"
			return r
		}
	}
	for g := 0; g < G; g++ {
		if err := waitFor(g); err != nil {
			r.Observed, r.Site = err.Error(), "conc:hang"
			return r
		}
		if !finished[g] {
			r.Observed = fmt.Sprintf("goroutine %d has more gates than the model", g+1)
			r.Site = "harness"
			// let it run to the end
			for !finished[g] {
				atGate[g] = false
				gs[g].permit <- struct{}{}
				waitFor(g)
			}
			return r
		}
	}
	obs := make([]any, G)
	copy(obs, res)
	r.Observed = tlaval.Format(obs)
	r.OK = tlaval.Equal(vars["res"], obs)
	if !r.OK {
		r.Site = "conc:result"
	}
	return r
}

// concWorkloadsByGates mirrors the workload constants of MC_Conc (W2, W2b, W3, W3b) by their gate counts.
func concWorkloadsByGates(pcs []any) []any {
	key := fmt.Sprint(pcs)
	m := map[string]string{
		"[5 5]":   `<< <<"eval", 1, 1>>, <<"eval", 1, 2>> >>`,
		"[6 6]":   `<< <<"eval", 2, 1>>, <<"eval", 2, 3>> >>`,
		"[3 3 3]": `<< <<"eval", 3, 1>>, <<"eval", 3, 2>>, <<"eval", 3, 3>> >>`,
		"[5 3 6]": `<< <<"eval", 1, 3>>, <<"eval", 3, 2>>, <<"eval", 2, 1>> >>`,
		"[13 13]": `<< <<"eval", 4, 4>>, <<"eval", 4, 5>> >>`,
	}
	s, ok := m[key]
	if !ok {
		return nil
	}
	return mustParse(s).([]any)
}

// recordConc: free-running stress of the same workloads (no gates): G goroutines evaluate, analyse and
// parse concurrently; one event per distinct (workload, outcome) with its count.
func recordConc(args []string) int {
	fs := flag.NewFlagSet("conc", flag.ExitOnError)
	out := fs.String("out", "", "output ndjson")
	seed := fs.Int64("seed", 1, "seed")
	G := fs.Int("g", 8, "goroutines")
	iters := fs.Int("iters", 500, "iterations per goroutine")
	procs := fs.Int("procs", 0, "GOMAXPROCS")
	one := fs.String("one", "", "re-run (the event carries g, iters, procs)")
	deep := fs.Int("deep", 0, "if > 0: every goroutine evaluates a shared tree of this nesting depth, all at the same time")
	fs.Parse(args)
	if *one != "" {
		if e, err := readEvent(*one); err == nil {
			if v, ok := jsonToVal(e["g"]).(int64); ok {
				*G = int(v)
			}
			if v, ok := jsonToVal(e["iters"]).(int64); ok {
				*iters = int(v)
			}
			if v, ok := jsonToVal(e["procs"]).(int64); ok {
				*procs = int(v)
			}
			if v, ok := jsonToVal(e["deep"]).(int64); ok {
				*deep = int(v)
			}
		}
	}
	if *procs > 0 {
		runtime.GOMAXPROCS(*procs)
	}
	_ = seed
	trees := SharedTrees()
	type key struct {
		w   string
		out string
	}
	counts := map[key]int{}
	raw := map[key][2]any{}
	var wg sync.WaitGroup
	var deepTree *formula.SourceCode
	if *deep > 0 {
		src, err := formula.ParseSourceCode([]byte(strings.Repeat("(", *deep) + concTexts[2] + strings.Repeat(")", *deep)))
		if err != nil {
			fmt.Fprintln(os.Stderr, err)
			return 2
		}
		deepTree = src
	}
	// rounds: every round starts from freshly parsed shared trees and releases all goroutines at once; within a round the
	// goroutines do not synchronise with one another at all (results are kept per goroutine), so that a write to a shared
	// tree on first use (lazy initialisation) is seen by the race detector as the race it is
	const perRound = 25
	type obsT struct{ w, o any }
	local := make([][]obsT, *G)
	for round := 0; round*perRound < *iters; round++ {
		if round > 0 {
			trees = freshSharedTrees()
		}
		start := make(chan struct{})
		stRound := roundStruct(round)
		for g := 0; g < *G; g++ {
			wg.Add(1)
			go func(g int) {
				defer wg.Done()
				<-start
				for it := round * perRound; it < (round+1)*perRound && it < *iters; it++ {
					_ = it
					ti := (g + it) % len(trees)
					var w, o any
					mode := (g + it/7) % 5
					if it == round*perRound && deepTree == nil {
						ti, mode = len(trees)-1, 0 // every goroutine starts the round by evaluating the struct formula
					}
					if deepTree != nil {
						mode = 5
					}
					switch mode {
					case 5: // a deeply nested shared tree, evaluated by all goroutines at once
						di := (g + it) % 3
						dm, err := data.BuildMap(concDatas[di], nil)
						if err != nil {
							o = []any{"BROKEN", err.Error()}
						} else {
							r := formula.NewRunner()
							r.SetThis(dm)
							o = concOutcome(r, deepTree.Expression)
						}
						w = []any{"evaldeep", int64(3), int64(di + 1), int64(*deep)}
					case 4: // parsing texts with escapes while others parse and evaluate
						pi := (g + it) % len(concParseTexts)
						obs, _ := ParseObserveBytes(concParseBytes[pi])
						if string(concParseBytes[pi]) != concParseTexts[pi] {
							obs = []any{"BROKEN", "parsing changed the caller's text"}
						}
						w = []any{"parse", int64(pi + 1)}
						o = obs
					case 3: // analysis of the shared tree + parsing and formatting errors of other texts
						all, e1 := formula.ResolveReferenceFields(trees[ti])
						nl, e2 := formula.ResolveReferenceFieldsNotLocal(trees[ti])
						w = []any{"fields", int64(ti + 1)}
						o = []any{fieldSetValue(all, e1), fieldSetValue(nl, e2)}
						if _, err := formula.ParseSourceCode([]byte("1 +\n (2 *")); err == nil {
							o = []any{"BROKEN", "malformed text accepted"}
						}
						if src, err := formula.ParseSourceCode([]byte(concTexts[(ti+1)%len(concTexts)])); err != nil || src == nil {
							o = []any{"BROKEN", "re-parse failed"}
						}
					default:
						di := (g*3 + it) % 3
						if ti == 3 {
							di = 3 + (g+it)%2 // the regexp formula reads s1, s2
						}
						switch ti {
						case 4:
							di = 5
						case 5, 6:
							di = 6 // exact ties for round / roundBank
						case 7:
							di = 3 + (g+it)%2
						case 8:
							di = -1 // a runner that is never given a data map
						case 11:
							di = len(concDatas) - 1 // the struct
						case 10:
							di = 5 // the map m
						case 9:
							di = 7 + round%24 // every goroutine of a round asks for the same, so far unseen, zone
						}
						if di < 0 {
							o = concOutcome(formula.NewRunner(), trees[ti].Expression)
						} else if ti == len(trees)-1 {
							r := formula.NewRunner()
							r.SetThis(map[string]interface{}{"st": stRound})
							o = concOutcome(r, trees[ti].Expression)
						} else if dm, err := data.BuildMap(concDatas[di], nil); err != nil {
							o = []any{"BROKEN", err.Error()}
						} else {
							r := formula.NewRunner()
							r.SetThis(dm)
							o = concOutcome(r, trees[ti].Expression)
						}
						w = []any{"eval", int64(ti + 1), int64(di + 1)}
					}
					local[g] = append(local[g], obsT{w, o})
				}
			}(g)
		}
		close(start)
		wg.Wait()
	}
	for _, l := range local {
		for _, x := range l {
			k := key{tlaval.Format(x.w), tlaval.Format(x.o)}
			counts[k]++
			raw[k] = [2]any{x.w, x.o}
		}
	}
	wg.Wait()
	var keys []key
	for k := range counts {
		keys = append(keys, k)
	}
	sort.Slice(keys, func(i, j int) bool { return keys[i].w+keys[i].out < keys[j].w+keys[j].out })
	var evs []map[string]any
	for _, k := range keys {
		evs = append(evs, map[string]any{"ev": "conc", "w": raw[k][0], "out": raw[k][1], "count": counts[k], "g": *G, "iters": *iters, "procs": *procs, "deep": *deep,
			"input": fmt.Sprintf("workload %s under G=%d", k.w, *G), "site": "conc:free-running"})
	}
	if err := writeEvents(*out, evs); err != nil {
		fmt.Fprintln(os.Stderr, err)
		return 2
	}
	return 0
}
