package fam

import (
	"flag"
	"fmt"
	"math/rand"
	"os"
	"strconv"
	"time"

	formula "github.com/aundis/formula"
	"github.com/ericlagergren/decimal"

	"verif/harness/proj"
)

func init() { Recorders["time"] = recordTime }

// evalWith evaluates a formula against data and returns the exact root value.
func evalWith(text string, dm map[string]interface{}) (interface{}, error) {
	src, err := formula.ParseSourceCode([]byte(text))
	if err != nil {
		return nil, fmt.Errorf("parse %q: %v", text, err)
	}
	r := formula.NewRunner()
	r.SetThis(dm)
	t := ResolveTop(r, src.Expression)
	if t.Err != nil {
		return nil, t.Err
	}
	return t.Root, nil
}

// midnightGap: when t is not local midnight of the normalised civil date (y, m, d), the two instants one millisecond
// apart between which the local clock jumps over that midnight (an empty list when there is no such jump).
func midnightGap(t time.Time, y, m, d int64) []any {
	want := time.Date(int(y), time.Month(m), int(d), 0, 0, 0, 0, time.UTC)
	if t.Year() == want.Year() && t.YearDay() == want.YearDay() && t.Hour() == 0 && t.Minute() == 0 && t.Second() == 0 {
		return []any{}
	}
	civil := func(x time.Time) time.Time {
		return time.Date(x.Year(), x.Month(), x.Day(), x.Hour(), x.Minute(), x.Second(), x.Nanosecond(), time.UTC)
	}
	start, end := t.ZoneBounds()
	for _, b := range []time.Time{start, end} {
		if b.IsZero() {
			continue
		}
		p, q := b.Add(-time.Millisecond), b
		if civil(p).Before(want) && civil(q).After(want) {
			return []any{proj.TimeValue(p), proj.TimeValue(q)}
		}
	}
	return []any{}
}

// zoneOffsetAt: the offset of the named zone at the instant of t according to the zone database (seconds).
func zoneOffsetAt(name string, t time.Time) int64 {
	loc, err := time.LoadLocation(name)
	if err != nil {
		return 99999999
	}
	_, off := t.In(loc).Zone()
	return int64(off)
}

// localOffset: the offset of the process-local zone (time.Local as the host set it) at the instant of t, in seconds.
func localOffset(t time.Time) int64 {
	_, off := t.In(time.Local).Zone()
	return int64(off)
}

func intDigits(v interface{}) []any {
	d, ok := v.(*decimal.Big)
	if !ok {
		return []any{false, []any{int64(-1)}}
	}
	p, _ := proj.Dec(d).([]any)
	if len(p) != 3 {
		return []any{false, []any{int64(-1)}}
	}
	neg, _ := p[0].(bool)
	ds, _ := p[1].([]any)
	exp, _ := p[2].(int64)
	out := append([]any{}, ds...)
	for ; exp > 0; exp-- {
		out = append(out, int64(0))
	}
	return []any{neg, out}
}

func smallInt(v interface{}) int64 {
	d, ok := v.(*decimal.Big)
	if !ok {
		return -99999
	}
	n, _ := d.Int64()
	return n
}

// recordTime records date-builtin events under the process-local zone (VERIF_TZ).
func recordTime(args []string) int {
	fs := flag.NewFlagSet("time", flag.ExitOnError)
	out := fs.String("out", "", "output ndjson")
	seed := fs.Int64("seed", 1, "seed")
	n := fs.Int("n", 300, "events per kind")
	one := fs.String("one", "", "re-execute this event")
	fs.Parse(args)
	rng := rand.New(rand.NewSource(*seed))
	var evs []map[string]any
	zone := time.Local.String()
	fail := func(err error) int { fmt.Fprintln(os.Stderr, "time recorder:", err); return 2 }
	mk := func(ev string, kv map[string]any) map[string]any {
		kv["ev"] = ev
		kv["zone"] = zone
		kv["site"] = "time:" + ev
		kv["input"] = fmt.Sprintf("%s in %s: %v", ev, zone, kv["args"])
		return kv
	}
	dateEv := func(y, m, d int64) (map[string]any, time.Time, error) {
		v, err := evalWith(fmt.Sprintf("date(%d, %d, %d)", y, m, d), nil)
		if err != nil {
			return nil, time.Time{}, err
		}
		t, ok := v.(time.Time)
		if !ok {
			return nil, time.Time{}, fmt.Errorf("date returned %T", v)
		}
		return mk("date", map[string]any{"y": y, "m": m, "d": d, "res": proj.TimeValue(t), "gap": midnightGap(t, y, m, d), "loff": localOffset(t), "args": []any{y, m, d}}), t, nil
	}
	fieldsEv := func(t time.Time) (map[string]any, error) {
		dm := map[string]interface{}{"t": t}
		v, err := evalWith("[year(t), month(t), day(t), hour(t), minute(t), second(t), weekDay(t), millSecond(t)]", dm)
		if err != nil {
			return nil, err
		}
		a, _ := v.([]interface{})
		if len(a) != 8 {
			return nil, fmt.Errorf("fields: %v", v)
		}
		f := make([]any, 7)
		for i := 0; i < 7; i++ {
			f[i] = smallInt(a[i])
		}
		return mk("fields", map[string]any{"t": proj.TimeValue(t), "fields": f, "ms": intDigits(a[7]), "args": t.String()}), nil
	}
	if *one != "" {
		e, err := readEvent(*one)
		if err != nil {
			return fail(err)
		}
		// events are regenerated from their arguments, under the zone they were recorded in
		if z, ok := e["zone"].(string); ok && z != "" && z != "Local" {
			loc, err := time.LoadLocation(z)
			if err != nil {
				return fail(err)
			}
			time.Local = loc
			zone = z
		}
		switch e["ev"] {
		case "date":
			a, _ := jsonToVal(e["args"]).([]any)
			ev, _, err := dateEv(a[0].(int64), a[1].(int64), a[2].(int64))
			if err != nil {
				return fail(err)
			}
			evs = append(evs, ev)
		default:
			// other kinds: re-run the whole seeded recording and keep the kind
			return recordTime([]string{"-out", *out, "-seed", strconv.FormatInt(*seed, 10), "-n", strconv.Itoa(*n)})
		}
		if err := writeEvents(*out, evs); err != nil {
			return fail(err)
		}
		return 0
	}
	years := []int64{1, 1600, 1900, 1970, 1999, 2000, 2023, 2024, 2038, 9999}
	var times []time.Time
	for i := 0; i < *n; i++ {
		y := years[rng.Intn(len(years))]
		if rng.Intn(2) == 0 {
			y = 1950 + int64(rng.Intn(100))
		}
		m, d := int64(rng.Intn(40)-13), int64(rng.Intn(111)-40)
		ev, t, err := dateEv(y, m, d)
		if err != nil {
			return fail(err)
		}
		evs = append(evs, ev)
		times = append(times, t)
	}
	// every day on which the process-local zone changes its offset (2018-2026), and its neighbours
	for y := 2018; y <= 2026; y++ {
		prev := time.Date(y, 1, 1, 12, 0, 0, 0, time.Local)
		_, poff := prev.Zone()
		for d := 2; d <= 366; d++ {
			cur := time.Date(y, 1, d, 12, 0, 0, 0, time.Local)
			_, off := cur.Zone()
			if off != poff {
				for _, dd := range []int{d - 1, d, d + 1} {
					ev, t, err := dateEv(int64(y), 1, int64(dd))
					if err != nil {
						return fail(err)
					}
					evs = append(evs, ev)
					times = append(times, t)
				}
			}
			poff = off
		}
	}
	// times of day (noon-ish, to stay clear of DST gaps for addDate; arbitrary for fields)
	for i := 0; i < *n; i++ {
		t := times[rng.Intn(len(times))].Add(time.Duration(rng.Int63n(86400000)) * time.Millisecond)
		ev, err := fieldsEv(t)
		if err != nil {
			return fail(err)
		}
		evs = append(evs, ev)
		times = append(times, t)
	}
	zones := []string{"UTC", "Asia/Shanghai", "America/New_York", "Australia/Lord_Howe", "Europe/London", "Asia/Kolkata"}
	for i := 0; i < *n; i++ {
		t := times[rng.Intn(len(times))]
		z := zones[rng.Intn(len(zones))]
		v, err := evalWith("useTimezone(t, z)", map[string]interface{}{"t": t, "z": z})
		if err != nil {
			return fail(err)
		}
		rt, _ := v.(time.Time)
		evs = append(evs, mk("usetz", map[string]any{"t": proj.TimeValue(t), "res": proj.TimeValue(rt), "zoff": zoneOffsetAt(z, t), "args": z}))
		ev, err := fieldsEv(rt)
		if err != nil {
			return fail(err)
		}
		evs = append(evs, ev)
	}
	// every half hour around each offset change of the target zones (the skipped and the repeated hour)
	for _, z := range []string{"America/New_York", "Australia/Lord_Howe", "Europe/London"} {
		loc, err := time.LoadLocation(z)
		if err != nil {
			return fail(err)
		}
		for y := 2023; y <= 2024; y++ {
			prev := time.Date(y, 1, 1, 12, 0, 0, 0, loc)
			_, poff := prev.Zone()
			for d := 2; d <= 366; d++ {
				cur := time.Date(y, 1, d, 12, 0, 0, 0, loc)
				_, off := cur.Zone()
				if off != poff {
					start := time.Date(y, 1, d-1, 12, 0, 0, 0, time.UTC)
					for k := 0; k < 96; k++ {
						t := start.Add(time.Duration(k)*30*time.Minute + time.Duration(rng.Intn(1800000))*time.Millisecond).In(time.Local)
						v, err := evalWith("useTimezone(t, z)", map[string]interface{}{"t": t, "z": z})
						if err != nil {
							return fail(err)
						}
						rt, _ := v.(time.Time)
						evs = append(evs, mk("usetz", map[string]any{"t": proj.TimeValue(t), "res": proj.TimeValue(rt), "zoff": zoneOffsetAt(z, t), "args": z}))
					}
				}
				poff = off
			}
		}
	}
	// a time that already sits in a zone whose *abbreviation* spells another zone's name (Africa/Algiers is "CET" all
	// year, London "GMT" in winter): the result is in the zone that was asked for ("zoff": that zone's offset at the
	// instant, from the zone database); an abbreviation that names no zone ("CST", "JST") is unknown
	for _, c := range [][2]string{{"Africa/Algiers", "CET"}, {"Europe/London", "GMT"}, {"Europe/Lisbon", "WET"}, {"Asia/Shanghai", "CST"}, {"Asia/Tokyo", "JST"}, {"Africa/Algiers", "Europe/Paris"}} {
		for _, base := range []time.Time{time.Date(2023, 7, 10, 12, 30, 0, 0, time.UTC), time.Date(2023, 1, 10, 12, 30, 0, 0, time.UTC)} {
			v1, err := evalWith("useTimezone(t, z)", map[string]interface{}{"t": base, "z": c[0]})
			if err != nil {
				return fail(err)
			}
			t1, _ := v1.(time.Time)
			v2, err2 := evalWith("useTimezone(t, z)", map[string]interface{}{"t": t1, "z": c[1]})
			loc, lerr := time.LoadLocation(c[1])
			if lerr != nil {
				evs = append(evs, mk("badtz", map[string]any{"err": err2 != nil, "args": c[1] + " asked of a time in " + c[0]}))
				continue
			}
			if err2 != nil {
				return fail(err2)
			}
			t2, _ := v2.(time.Time)
			_, zoff := t1.In(loc).Zone()
			evs = append(evs, mk("usetz", map[string]any{"t": proj.TimeValue(t1), "res": proj.TimeValue(t2), "zoff": int64(zoff), "args": c[1] + " asked of a time in " + c[0]}))
		}
	}
	// an unknown zone stays unknown however often it is asked for, also right after a known one
	for _, z := range []string{"Mars/Olympus", "Mars/Olympus", "Asia/Tokyo", "No/Such", "No/Such", "No/Such", "Europe/Paris", "Mars/Olympus", "Mars/Olympus"} {
		_, err := evalWith("useTimezone(t, z)", map[string]interface{}{"t": times[0], "z": z})
		if z == "Asia/Tokyo" || z == "Europe/Paris" {
			if err != nil {
				return fail(err)
			}
			continue
		}
		evs = append(evs, mk("badtz", map[string]any{"err": err != nil, "args": z}))
	}
	for _, z := range []string{"Mars/Olympus", "No/Such", "UTC+25x"} {
		_, err := evalWith("useTimezone(t, z)", map[string]interface{}{"t": times[0], "z": z})
		evs = append(evs, mk("badtz", map[string]any{"err": err != nil, "args": z}))
	}
	for i := 0; i < *n; i++ {
		base := times[rng.Intn(*n)] // a local midnight
		t := base.Add(12 * time.Hour)
		if i%2 == 1 {
			// a host-supplied time with a fraction of a second (and a sub-millisecond part now and then)
			t = t.Add(time.Duration(1+rng.Intn(999))*time.Millisecond + time.Duration(rng.Intn(2)*rng.Intn(1000000))*time.Nanosecond)
		}
		_, off1 := t.Zone()
		dy, dm, dd := int64(rng.Intn(9)-4), int64(rng.Intn(61)-30), int64(rng.Intn(801)-400)
		if i%3 == 0 {
			dy, dm = 0, 0 // a shift by days only (across offset changes of the zone: the civil time of day stays)
			if i%12 == 0 && t.Year() > 700 && t.Year() < 9000 {
				dd = int64(rng.Intn(400001) - 200000) // more days than 2^63 ns
			}
		}
		if t.Year()+int(dy) < 2 || t.Year()+int(dy) > 9990 {
			dy = 0
		}
		v, err := evalWith(fmt.Sprintf("addDate(t, %d, %d, %d)", dy, dm, dd), map[string]interface{}{"t": t})
		if err != nil {
			return fail(err)
		}
		rt, _ := v.(time.Time)
		_ = off1
		evs = append(evs, mk("adddate", map[string]any{"t": proj.TimeValue(t), "dy": dy, "dm": dm, "dd": dd, "res": proj.TimeValue(rt), "args": []any{dy, dm, dd}}))
	}
	layouts := []string{"2006-01-02", "2006-01-02 15:04:05", "02/01/2006", "15:04", "20060102T150405"}
	for i := 0; i < *n/2; i++ {
		t := times[rng.Intn(len(times))]
		if i%4 == 0 {
			// times with a sub-millisecond part, some within half a millisecond of the next second / day / year: a layout
			// renders the fields of the time, it does not round it
			t = t.Add(time.Duration(rng.Intn(1000000)) * time.Nanosecond)
			if i%8 == 0 {
				t = time.Date(t.Year(), []time.Month{12, 2, 6}[rng.Intn(3)], []int{31, 28, 30}[rng.Intn(3)], 23, 59, 59, 999500000+rng.Intn(500000), t.Location())
			}
		}
		l := layouts[rng.Intn(len(layouts))]
		v, err := evalWith("timeFormat(t, l)", map[string]interface{}{"t": t, "l": l})
		if err != nil {
			return fail(err)
		}
		s, _ := v.(string)
		evs = append(evs, mk("format", map[string]any{"t": proj.TimeValue(t), "layout": byteSeq([]byte(l)), "res": byteSeq([]byte(s)), "args": l}))
	}
	for i := 0; i < 20; i++ {
		for _, fn := range []string{"now", "today"} {
			t0 := time.Now()
			name := map[string]string{"now": "now()", "today": "toDay()"}[fn]
			v, err := evalWith(name, nil)
			t1 := time.Now()
			if err != nil {
				return fail(err)
			}
			rt, _ := v.(time.Time)
			evs = append(evs, mk(fn, map[string]any{"t0": proj.TimeValue(t0.Truncate(time.Millisecond)), "res": proj.TimeValue(rt), "loff": localOffset(rt), "t1": proj.TimeValue(t1.Add(time.Millisecond)), "args": name}))
		}
	}
	if err := writeEvents(*out, evs); err != nil {
		return fail(err)
	}
	return 0
}
