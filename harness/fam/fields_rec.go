package fam

import (
	"flag"
	"fmt"
	"math/rand"
	"os"
	"strings"

	formula "github.com/aundis/formula"

	"verif/harness/data"
	"verif/harness/proj"
	"verif/harness/tlaval"
)

func init() { Recorders["fields"] = recordFields }

func fieldsEvent(text string) (map[string]any, error) {
	src, err := formula.ParseSourceCode([]byte(text))
	if err != nil {
		return nil, err
	}
	ev := map[string]any{"ev": "fields", "text": text, "input": text, "site": "fields:random", "tree": pctSafe(proj.Tree(src.Expression))}
	all, e1 := formula.ResolveReferenceFields(src)
	nl, e2 := formula.ResolveReferenceFieldsNotLocal(src)
	ev["all"] = fieldSetValue(all, e1)
	ev["nonlocal"] = fieldSetValue(nl, e2)
	// evaluation against the full data map and against the map restricted to what the analysis reported
	desc, _ := tlaval.AsMap(progDataDesc)
	run := func(keep map[string]bool) any {
		h := &HostLog{}
		dm, err := data.BuildMap(desc, h)
		if err != nil {
			return []any{"harness", err.Error()}
		}
		if keep != nil {
			for k := range dm {
				if !keep[k] {
					delete(dm, k)
				}
			}
		}
		r := formula.NewRunner()
		r.SetThis(dm)
		t := ResolveTop(r, src.Expression)
		switch {
		case t.Panic != nil:
			return []any{"PANIC", fmt.Sprint(t.Panic)}
		case t.Err != nil:
			return []any{"err", append([]any{}, h.Log...)}
		}
		return []any{"ok", proj.Value(t.Root), append([]any{}, h.Log...)}
	}
	ev["full"] = run(nil)
	keep := map[string]bool{}
	for _, f := range all {
		keep[strings.SplitN(f, ".", 2)[0]] = true
	}
	// the names the formula calls: callee paths of the real tree
	var walk func(e formula.Expression)
	walk = func(e formula.Expression) {
		switch n := e.(type) {
		case *formula.CallExpression:
			x := n.Expression
			for {
				if s, ok := x.(*formula.SelectorExpression); ok {
					x = s.Expression
					continue
				}
				break
			}
			if id, ok := x.(*formula.Identifier); ok {
				keep[id.Value] = true
			}
			walk(n.Expression)
			if n.Arguments != nil {
				for i := 0; i < n.Arguments.Len(); i++ {
					walk(n.Arguments.At(i))
				}
			}
		case *formula.BinaryExpression:
			walk(n.Left)
			walk(n.Right)
		case *formula.PrefixUnaryExpression:
			walk(n.Operand)
		case *formula.TypeOfExpression:
			walk(n.Expression)
		case *formula.ParenthesizedExpression:
			walk(n.Expression)
		case *formula.ConditionalExpression:
			walk(n.Condition)
			walk(n.WhenTrue)
			walk(n.WhenFalse)
		case *formula.SelectorExpression:
			walk(n.Expression)
		case *formula.ArrayLiteralExpression:
			if n.Elements != nil {
				for i := 0; i < n.Elements.Len(); i++ {
					walk(n.Elements.At(i))
				}
			}
		}
	}
	walk(src.Expression)
	ev["restricted"] = run(keep)
	return ev, nil
}

func recordFields(args []string) int {
	fs := flag.NewFlagSet("fields", flag.ExitOnError)
	out := fs.String("out", "", "output ndjson")
	seed := fs.Int64("seed", 1, "seed")
	n := fs.Int("n", 1000, "events")
	one := fs.String("one", "", "re-execute this event")
	fs.Parse(args)
	var evs []map[string]any
	if *one != "" {
		e, err := readEvent(*one)
		if err != nil {
			fmt.Fprintln(os.Stderr, err)
			return 2
		}
		ev, err := fieldsEvent(fmt.Sprint(e["text"]))
		if err != nil {
			fmt.Fprintln(os.Stderr, err)
			return 2
		}
		evs = append(evs, ev)
	} else {
		rng := rand.New(rand.NewSource(*seed))
		// wide and shallow formulas: long argument / element lists of composite items and a long else-if ladder
		// (nothing in the property bounds the width of a list; only nesting costs stack)
		wide := func(item func(k int) string, sep string, cnt int) string {
			parts := make([]string, cnt)
			for k := range parts {
				parts[k] = item(k)
			}
			return strings.Join(parts, sep)
		}
		members := []string{"m.k", "m.s", "m.m.k", "st.A", "tm.o", "m.n"}
		ladder := wide(func(k int) string { return fmt.Sprintf("z == %d ? m.k + %d : ", k+1, k) }, "", 45) + "st.P"
		for _, text := range []string{
			"[" + wide(func(k int) string { return members[k%len(members)] }, ", ", 130) + "]",
			"max(" + wide(func(k int) string { return fmt.Sprintf("m.k + %d", k) }, ", ", 125) + ")",
			"min(" + wide(func(k int) string { return fmt.Sprintf("(i * %d)", k) }, ", ", 110) + ", st.P)",
			ladder,
			wide(func(k int) string { return fmt.Sprintf("(m.k + %d)", k) }, " + ", 140) + " + j",
		} {
			ev, err := fieldsEvent(text)
			if err != nil {
				fmt.Fprintln(os.Stderr, "wide formula:", err)
				return 2
			}
			evs = append(evs, ev)
		}
		for len(evs) < *n {
			g := &progGen{rng: rng}
			text := g.gen(2 + rng.Intn(3))
			if len(text) > 300 {
				continue
			}
			ev, err := fieldsEvent(text)
			if err != nil {
				continue
			}
			evs = append(evs, ev)
		}
	}
	if err := writeEvents(*out, evs); err != nil {
		fmt.Fprintln(os.Stderr, err)
		return 2
	}
	return 0
}
