package fam

import (
	"flag"
	"fmt"
	"math/rand"
	"os"
	"os/exec"
	"sort"
	"strconv"
	"strings"

	formula "github.com/aundis/formula"

	"verif/harness/data"
	"verif/harness/proj"
	"verif/harness/tlaval"
)

// purity family (C08): state = hist, a sequence of [op, res]; ops parse(i) / eval(i, j) / fields(i)
// over the pools of MC_Purity. The history is executed in one process; trees parsed earlier in the
// history are re-used, and every tree is dumped before and after an evaluation or analysis.
type purityFam struct{}

func init() {
	Families["purity"] = func() Family { return purityFam{} }
	Recorders["purity"] = recordPurity
}

var purityTexts = mustParse(`<<
  << <<"Id", "x", FALSE>>, <<"+", "+", FALSE>>, <<"Num", <<FALSE, <<1>>, 0>>, FALSE>> >>,
  << <<"Id", "$a", FALSE>>, <<"=", "=", FALSE>>, <<"Id", "x", FALSE>>, <<",", ",", FALSE>>, <<"Id", "$a", FALSE>>, <<"*", "*", FALSE>>, <<"Id", "$a", FALSE>> >>,
  << <<"Id", "y", FALSE>>, <<".", ".", FALSE>>, <<"Id", "k", FALSE>>, <<"?", "?", FALSE>>, <<"Str", <<97>>, FALSE>>, <<":", ":", FALSE>>, <<"Id", "fail", FALSE>>, <<"(", "(", FALSE>>, <<"Num", <<FALSE, <<1>>, 0>>, FALSE>>, <<")", ")", FALSE>> >>,
  << <<"Id", "max", FALSE>>, <<"(", "(", FALSE>>, <<"Id", "x", FALSE>>, <<",", ",", FALSE>>, <<"Num", <<FALSE, <<1>>, 0>>, FALSE>>, <<")", ")", FALSE>> >>,
  << <<"Id", "x", FALSE>>, <<"+", "+", FALSE>> >>,
  << <<"[", "[", FALSE>>, <<"Id", "x", FALSE>>, <<",", ",", FALSE>>, <<"Id", "undefined", FALSE>>, <<"]", "]", FALSE>> >>,
  << <<"(", "(", FALSE>>, <<"Num", <<FALSE, <<1>>, 33>>, FALSE>>, <<"+", "+", FALSE>>, <<"Num", <<FALSE, <<5>>, -1>>, FALSE>>, <<")", ")", FALSE>>, <<"-", "-", FALSE>>, <<"Num", <<FALSE, <<1>>, 33>>, FALSE>> >>,
  << <<"Id", "round", FALSE>>, <<"(", "(", FALSE>>, <<"Id", "x", FALSE>>, <<")", ")", FALSE>> >>,
  << <<"(", "(", FALSE>>, <<"Id", "y", FALSE>>, <<")", ")", FALSE>>, <<".", ".", FALSE>>, <<"Id", "k", FALSE>> >>,
  << <<"Id", "y", FALSE>>, <<".", ".", FALSE>>, <<"Id", "Name", FALSE>> >> >>`).([]any)

var purityDatas = mustParse(`<< [x |-> <<"int", 2>>, y |-> <<"map", [k |-> <<"bool", TRUE>>]>>, fail |-> <<"func", "fail">>, crec |-> <<"func", "crec">>],
  [x |-> <<"dec", FALSE, <<2,5>>, -1>>, y |-> <<"map", [k |-> <<"int", 0>>]>>, fail |-> <<"func", "fail">>, crec |-> <<"func", "crec">>, t0 |-> <<"time", -719162, 0, 0>>],
  [y |-> <<"nil">>, fail |-> <<"func", "fail">>, crec |-> <<"func", "crec">>],
  [y |-> <<"rowA">>], [y |-> <<"rowB">>] >>`).([]any)

// TreeDump renders a parsed source with everything a caller can see of it: node kinds, ids,
// parents (by position), ranges, list ranges, token nodes, source bookkeeping.
func TreeDump(src *formula.SourceCode) string {
	if src == nil {
		return "<nil>"
	}
	var sb strings.Builder
	fmt.Fprintf(&sb, "src[%d,%d) id=%d nodes=%d idents=%d linestarts=%v diags=%d text=%q eof=", src.Pos(), src.End(), src.ID(), src.NodeCount, src.IdentifierCount, src.LineStarts, len(src.Diagnostics), src.Text)
	dumpTok(&sb, src.EndOfFileToken)
	dumpNode(&sb, src.Expression)
	return sb.String()
}

func dumpTok(sb *strings.Builder, t *formula.TokenNode) {
	if t == nil {
		sb.WriteString("tok<nil>")
		return
	}
	fmt.Fprintf(sb, "tok(%d)[%d,%d)id=%d par=%v", t.Token, t.Pos(), t.End(), t.ID(), t.Parent() != nil)
}

func dumpList(sb *strings.Builder, l *formula.NodeList[formula.Expression]) {
	if l == nil {
		sb.WriteString("list<nil>")
		return
	}
	fmt.Fprintf(sb, "list[%d,%d){", l.Pos(), l.End())
	for i := 0; i < l.Len(); i++ {
		dumpNode(sb, l.At(i))
		sb.WriteByte(',')
	}
	sb.WriteByte('}')
}

func dumpNode(sb *strings.Builder, e formula.Expression) {
	if e == nil {
		sb.WriteString("<nil>")
		return
	}
	par := "nil"
	if p := e.Parent(); p != nil {
		par = fmt.Sprintf("%T[%d,%d)", p, p.Pos(), p.End())
	}
	fmt.Fprintf(sb, "%T[%d,%d)id=%d par=%s{", e, e.Pos(), e.End(), e.ID(), par)
	switch n := e.(type) {
	case *formula.Identifier:
		fmt.Fprintf(sb, "%q orig=%d", n.Value, n.OriginalToken)
	case *formula.LiteralExpression:
		fmt.Fprintf(sb, "%d %q", n.Token, n.Value)
	case *formula.PrefixUnaryExpression:
		dumpTok(sb, n.Operator)
		dumpNode(sb, n.Operand)
	case *formula.TypeOfExpression:
		dumpNode(sb, n.Expression)
	case *formula.BinaryExpression:
		dumpNode(sb, n.Left)
		dumpTok(sb, n.Operator)
		dumpNode(sb, n.Right)
	case *formula.ConditionalExpression:
		dumpNode(sb, n.Condition)
		dumpTok(sb, n.QuestionTok)
		dumpNode(sb, n.WhenTrue)
		dumpTok(sb, n.ColonTok)
		dumpNode(sb, n.WhenFalse)
	case *formula.ArrayLiteralExpression:
		dumpList(sb, n.Elements)
	case *formula.ParenthesizedExpression:
		dumpNode(sb, n.Expression)
	case *formula.SelectorExpression:
		dumpNode(sb, n.Expression)
		fmt.Fprintf(sb, " assert=%v name=", n.Assert)
		if n.Name != nil {
			dumpNode(sb, n.Name)
		}
	case *formula.CallExpression:
		dumpNode(sb, n.Expression)
		dumpList(sb, n.Arguments)
		dumpTok(sb, n.DotDotDotToken)
	}
	sb.WriteByte('}')
}

// purityWorld executes the operations of one history.
type purityWorld struct {
	trees map[int64]*formula.SourceCode
}

func purityText(i int64) (string, error) {
	if i < 1 || int(i) > len(purityTexts) {
		return "", fmt.Errorf("bad formula index %d", i)
	}
	return RenderTokens(purityTexts[i-1].([]any))
}

// apply returns the result in the model's form and whether the tree it used is unchanged.
func (w *purityWorld) apply(op []any) (any, bool, string, error) {
	name, _ := tlaval.Str(op[0])
	i, _ := op[1].(int64)
	text, err := purityText(i)
	if err != nil {
		return nil, false, "", err
	}
	switch name {
	case "parse":
		obs, src := ParseObserve(text)
		if src != nil && w.trees[i] == nil {
			if ot, _ := obs.([]any); len(ot) > 0 && ot[0] == "OK" {
				w.trees[i] = src
			}
		}
		return obs, true, fmt.Sprintf("parse(%q)", text), nil
	case "eval", "fields":
		src := w.trees[i]
		if src == nil {
			var perr error
			src, perr = formula.ParseSourceCode([]byte(text))
			if perr != nil {
				return []any{"noparse"}, true, fmt.Sprintf("%s(%q)", name, text), nil
			}
			w.trees[i] = src
		}
		before := TreeDump(src)
		var res any
		desc := fmt.Sprintf("%s(%q)", name, text)
		if name == "fields" {
			all, e1 := formula.ResolveReferenceFields(src)
			nl, e2 := formula.ResolveReferenceFieldsNotLocal(src)
			res = []any{fieldSetValue(all, e1), fieldSetValue(nl, e2)}
		} else {
			j, _ := op[2].(int64)
			h := &HostLog{}
			dm, err := data.BuildMap(purityDatas[j-1], h)
			if err != nil {
				return nil, false, "", err
			}
			r := formula.NewRunner()
			r.SetThis(dm)
			o := EvalObserve(r, h, src.Expression)
			desc = fmt.Sprintf("eval(%q, data %d)", text, j)
			ot, _ := o.([]any)
			switch {
			case len(ot) == 3 && ot[0] == "ok":
				res = []any{"ok", ot[1], ot[2].(map[string]any)["log"]}
			case len(ot) == 2 && ot[0] == "err":
				res = []any{"err", ot[1].(map[string]any)["log"]}
			default:
				res = o
			}
		}
		return res, TreeDump(src) == before, desc, nil
	}
	return nil, false, "", fmt.Errorf("unknown op %q", name)
}

// fieldSetValue renders an analysis result as <<"ok", {paths}>> | <<"refuse">> for comparison
// with the specification's lower/upper sets (done by compareFields).
func fieldSetValue(fs []string, err error) any {
	if err != nil {
		return []any{"refuse"}
	}
	sort.Strings(fs)
	out := []any{}
	for _, f := range fs {
		out = append(out, f)
	}
	return []any{"ok", out}
}

func purityResOK(op []any, exp, obs any) bool {
	name, _ := tlaval.Str(op[0])
	if name != "fields" {
		if et, _ := exp.([]any); len(et) > 0 && et[0] == "unspec" {
			ot, _ := obs.([]any)
			return len(ot) > 0 && (ot[0] == "ok" || ot[0] == "err")
		}
		return tlaval.Equal(exp, obs)
	}
	et, _ := exp.([]any)
	ot, _ := obs.([]any)
	if len(et) == 1 && et[0] == "noparse" {
		return len(ot) == 1 && ot[0] == "noparse"
	}
	if len(et) != 2 || len(ot) != 2 {
		return false
	}
	for k := 0; k < 2; k++ {
		o, _ := ot[k].([]any)
		var names []string
		var err error
		if len(o) == 1 {
			err = fmt.Errorf("refused")
		} else if len(o) == 2 {
			for _, n := range o[1].([]any) {
				names = append(names, n.(string))
			}
		}
		if ok, _ := checkFieldSet(et[k], names, err); !ok {
			return false
		}
	}
	return true
}

func (purityFam) Check(vars map[string]any) Result {
	hist, ok := vars["hist"].([]any)
	if !ok || len(hist) == 0 {
		return Result{Skip: true}
	}
	w := &purityWorld{trees: map[int64]*formula.SourceCode{}}
	var descs []string
	r := Result{Nontrivial: len(hist) > 1, Sub: fmt.Sprintf("len%d", len(hist))}
	for k, h := range hist {
		step, _ := tlaval.AsMap(h)
		op, _ := step["op"].([]any)
		res, same, d, err := w.apply(op)
		if err != nil {
			return Result{Input: strings.Join(descs, "; "), Observed: err.Error(), Site: "harness"}
		}
		descs = append(descs, d)
		if !same {
			r.Input = strings.Join(descs, "; ")
			r.Observed = fmt.Sprintf("step %d changed the tree it worked on", k+1)
			r.Site = "purity:tree-changed"
			return r
		}
		if !purityResOK(op, step["res"], res) {
			r.Input = strings.Join(descs, "; ")
			r.Expected = fmt.Sprintf("step %d: %s", k+1, tlaval.Format(step["res"]))
			r.Observed = fmt.Sprintf("step %d: %s", k+1, tlaval.Format(res))
			r.Site = "purity:" + fmt.Sprint(op[0])
			return r
		}
	}
	r.Input = strings.Join(descs, "; ")
	r.Observed = "conforms"
	r.OK = true
	return r
}

// ---- trace direction: long random histories in one process

var purityUnrelated = []string{"1 + 2 * 3", "'a' + 'b'", "[1, 2, 3]", "len('abc') + find('abc', 'c')", "$z = 5, $z * $z", "max(1, 2, 3) - min(4, 5)",
	"upper(lower('MiXed'))", "x.y.z ?? 'none'", "!!'' || 'dflt'", "date(2024, 2, 30)", "round(2.5) + roundBank(2.5)", "lpad('7', '0', 3)",
	"1 / 3 * 3", "regexp('abc', '(a|b)+c')", "join(['a', 'b'], '-')", "typeof x", "(1, 2, 3)", "a ? b : c", "toFloat(toString(1.50))",
	"1 +", "f(", "'open", "mid('hello', 1, 3)", "replace('aaa', 'a', 'b')", "abs(-3) === 3", "~5 & 3 | 8 ^ 1", "year(date(1999, 12, 31))", "nope(1)",
	"9999999999999999999999999999999999 * 1.5", "1000000000000000000000000000000000 + 2.5", "(x).y + len((a)!.b)", "roundBank(0.5) + roundBank(1.5)", "1 / 8 * 3",
	"floor(-2.5) + ceil(-2.5)", "sqrt(2) * sqrt(2)", "toInt('12.9') + toFloat('1e2')",
	// results that a cache keyed too coarsely would carry from one evaluation or text to another
	// spread of an array literal (the call's argument list and the literal's element list are both slices of the tree);
	// locals read and written by runners that were never given a data map
	"max([x]...)", "max(x, [1, 2]...)", "min(1, 2, [x, 3]...)", "max([1]...) + max([2, 3]...)", "$z ?? 1", "$rate ?? 1", "$rate = 3, $rate * 2", "typeof $z",
	// zone-sensitive observations next to evaluations that name other zones (valid and unknown)
	"millSecond(date(2020, 1, 1))", "useTimezone(date(2020, 1, 1), 'Asia/Tokyo')", "timeFormat(date(2020, 6, 1), '2006-01-02 15:04 -0700')",
	"hour(useTimezone(date(2020, 1, 1), 'America/New_York'))", "useTimezone(date(2020, 1, 1), 'No/Such')", "day(addDate(date(2020, 1, 31), 0, 1, 0))",
	"millSecond(date(2020, 1, 1)) - millSecond(useTimezone(date(2020, 1, 1), 'Asia/Kolkata'))",
	// texts the parser gives up on before the end of the input, next to ordinary ones
	"1 )", "(1 2", "f(1 2", "a b", "price * qty + 1", "[1, 2] 3", "'s' 't'",
	// host functions that take the context first (called more than once per process), several back-references to the data map
	"crec(x)", "crec(1) + crec(2)", "crec('a', 2)", "[crec(y), fail(1)]", "$x = this, $y = this, toString(this)", "$x = this, $y = [this], 'a' + $y",
	// every kind of "... expected" error next to each other (their texts come from shared templates); a zero time
	"a > 1 ? b", "(1", "[1, 2", "x ? y :", "f(1", "a.", "a ? b : c ? d", "millSecond(addDate(t0, 0, 0, 7))", "timeFormat(addDate(t0, 0, 1, 0), '2006-01-02 15:04:05')", "year(t0)",
	// number literals with separators (the scanner rebuilds their text); builtins that compute on caller-owned numbers
	"1_000 + x", "2.5e1_0 * 2", "1_0.2_5 + 1_0", "toInt(x) + 1", "abs(x) + floor(x) + ceil(x) + round(x)", "max(x, 1) - min(x, 1)", "-x + x % 2",
	"regexp('a', 'a')", "regexp('a', '(')", "regexp('ab', '[')", "regexp('ab', 'a.')", "regexp('(', '(')",
	"\u0663 + 1", "n\u0663 * 2", "\u0301 + 1", "cafe\u0301 + 1", "\u203f", "a\u203f", "\u2118x", "x\u2118", "\u00aa\u00b7", "\u00b7\u00aa"}

func outcomeForTrace(o any) any {
	ot, _ := o.([]any)
	switch {
	case len(ot) == 3 && ot[0] == "ok":
		return []any{"ok", ot[1], ot[2].(map[string]any)["log"], ot[2].(map[string]any)["this"]}
	case len(ot) == 2 && ot[0] == "err":
		return []any{"err", ot[1].(map[string]any)["log"], ot[1].(map[string]any)["this"]}
	}
	return o
}

func recordPurity(args []string) int {
	fs := flag.NewFlagSet("purity", flag.ExitOnError)
	out := fs.String("out", "", "output ndjson")
	seed := fs.Int64("seed", 1, "seed")
	n := fs.Int("n", 3000, "operations")
	one := fs.String("one", "", "unused: a purity failure is a property of the whole history")
	order := fs.String("order", "both", "fwd | rev: the order of the prologue in this process; both: one process each, concatenated")
	fs.Parse(args)
	if *one != "" {
		// a purity failure is a property of the whole history: re-record it with the logged seed and length
		e, err := readEvent(*one)
		if err != nil {
			fmt.Fprintln(os.Stderr, err)
			return 2
		}
		if s, ok := jsonToVal(e["seed"]).(int64); ok {
			*seed = s
		}
		if m, ok := jsonToVal(e["n"]).(int64); ok {
			*n = int(m)
		}
	}
	if *order == "both" {
		// "regardless of which other formulas were parsed or evaluated before": two processes with different
		// histories; the second one's observations are compared with the first one's
		exe, err := os.Executable()
		if err != nil {
			fmt.Fprintln(os.Stderr, err)
			return 2
		}
		var all []byte
		for _, o := range []string{"fwd", "rev"} {
			part := *out + "." + o
			cmd := exec.Command(exe, "record", "purity", "-out", part, "-seed", strconv.FormatInt(*seed, 10), "-n", strconv.Itoa(*n), "-order", o)
			cmd.Stderr = os.Stderr
			if err := cmd.Run(); err != nil {
				fmt.Fprintln(os.Stderr, "purity recorder ("+o+"):", err)
				if ee, ok := err.(*exec.ExitError); ok {
					return ee.ExitCode()
				}
				return 2
			}
			b, err := os.ReadFile(part)
			if err != nil {
				fmt.Fprintln(os.Stderr, err)
				return 2
			}
			os.Remove(part)
			all = append(all, b...)
		}
		if err := os.WriteFile(*out, all, 0o644); err != nil {
			fmt.Fprintln(os.Stderr, err)
			return 2
		}
		return 0
	}
	if *order == "rev" {
		*seed += 1000003
	}
	rng := rand.New(rand.NewSource(*seed))
	type tgt struct {
		text  string
		src   *formula.SourceCode
		bytes []byte
	}
	var targets []tgt
	for i := range purityTexts {
		t, _ := purityText(int64(i + 1))
		targets = append(targets, tgt{text: t})
	}
	for _, u := range purityUnrelated {
		targets = append(targets, tgt{text: u})
	}
	sharedRecords := make([]map[string]interface{}, len(purityDatas))
	var evs []map[string]any
	errText := func(e error) string {
		if e == nil {
			return ""
		}
		return e.Error()
	}
	for k := 0; k < *n; k++ {
		ti := rng.Intn(len(targets))
		op := rng.Intn(4)
		if k < 3*len(targets) {
			// prologue: every target is parsed, analysed and evaluated once, in order, round() last, so that the
			// first observation of each key is made before anything else could have left state behind
			ti, op = k%len(targets), []int{0, 1, 2}[k/len(targets)]
			if *order == "rev" {
				ti = len(targets) - 1 - ti
			}
		}
		t := &targets[ti]
		switch op {
		case 0: // parse again
			// the caller's own byte slice is parsed, again and again: parsing must leave it alone
			if t.bytes == nil {
				t.bytes = []byte(t.text)
			}
			obs, src := ParseObserveBytes(t.bytes)
			textKept := string(t.bytes) == t.text
			if !textKept {
				obs = []any{"BROKEN", fmt.Sprintf("parsing changed the caller's text to %q", t.bytes)}
				t.bytes = []byte(t.text)
			}
			_, perr := formula.ParseSourceCode([]byte(t.text))
			if t.src == nil && src != nil {
				if ot, _ := obs.([]any); len(ot) > 0 && ot[0] == "OK" {
					t.src = src
				}
			}
			evs = append(evs, map[string]any{"ev": "op", "key": fmt.Sprintf("parse|t%d", ti), "res": []any{obs, errText(perr)}, "tree_same": textKept,
				"input": fmt.Sprintf("parse(%q) at step %d", t.text, k), "site": "purity:parse"})
		case 1: // fields
			if t.src == nil {
				continue
			}
			before := TreeDump(t.src)
			all, e1 := formula.ResolveReferenceFields(t.src)
			nl, e2 := formula.ResolveReferenceFieldsNotLocal(t.src)
			evs = append(evs, map[string]any{"ev": "op", "key": fmt.Sprintf("fields|t%d", ti), "res": []any{fieldSetValue(all, e1), fieldSetValue(nl, e2), errText(e1)},
				"tree_same": TreeDump(t.src) == before, "input": fmt.Sprintf("fields(%q) at step %d", t.text, k), "site": "purity:fields"})
		default: // evaluate in a fresh runner with equal data
			if t.src == nil {
				src, err := formula.ParseSourceCode([]byte(t.text))
				if err != nil {
					continue
				}
				t.src = src
			}
			// data map j, or (j = number of maps) a runner that is never given one
			j := rng.Intn(len(purityDatas) + 1)
			h := &HostLog{}
			before := TreeDump(t.src)
			r := formula.NewRunner()
			if j < len(purityDatas) {
				var dm map[string]interface{}
				if rng.Intn(2) == 0 {
					// the caller's own record, handed to one fresh runner after another (locals of the previous
					// evaluation removed): equal data as long as no evaluation changed what the record holds
					if sharedRecords[j] == nil {
						m, err := data.BuildMap(purityDatas[j], h)
						if err != nil {
							fmt.Fprintln(os.Stderr, err)
							return 2
						}
						sharedRecords[j] = m
					}
					dm = sharedRecords[j]
					for k := range dm {
						if strings.HasPrefix(k, "$") {
							delete(dm, k)
						}
					}
				} else {
					m, err := data.BuildMap(purityDatas[j], h)
					if err != nil {
						fmt.Fprintln(os.Stderr, err)
						return 2
					}
					dm = m
				}
				r.SetThis(dm)
			}
			tl := ResolveTop(r, t.src.Expression)
			var res any
			switch {
			case tl.Panic != nil:
				res = []any{"PANIC", fmt.Sprint(tl.Panic)}
			case tl.Err != nil:
				res = []any{"err", tl.Err.Error(), RunnerState(r)}
			default:
				res = []any{"ok", proj.Value(tl.Root), proj.Value(tl.Val), RunnerState(r)}
			}
			evs = append(evs, map[string]any{"ev": "op", "key": fmt.Sprintf("eval|t%d|d%d", ti, j), "res": res, "tree_same": TreeDump(t.src) == before,
				"input": fmt.Sprintf("eval(%q, data %d) at step %d", t.text, j, k), "site": "purity:eval"})
		}
	}
	if *order == "rev" {
		*seed -= 1000003
	}
	for _, e := range evs {
		e["seed"], e["n"], e["order"] = *seed, *n, *order
	}
	if err := writeEvents(*out, evs); err != nil {
		fmt.Fprintln(os.Stderr, err)
		return 2
	}
	return 0
}
