// Package tlaval reads TLA+ values in the syntax TLC prints them (state dumps).
package tlaval

import (
	"bufio"
	"fmt"
	"io"
	"sort"
	"strconv"
	"strings"
)

// Go representation:
//   integer  -> int64        string -> string      boolean -> bool
//   tuple    -> []any        record -> map[string]any
//   set      -> Set          function (k :> v @@ ...) -> Fn
//   model value / identifier -> Ident

type Set struct{ Elems []any }
type Fn struct {
	Keys []any
	Vals []any
}
type Ident string

type Reader struct {
	r    *bufio.Reader
	peek int // -2 = none
	Line int
}

func NewReader(r io.Reader) *Reader {
	return &Reader{r: bufio.NewReaderSize(r, 1<<20), peek: -2, Line: 1}
}

func (p *Reader) next() int {
	if p.peek != -2 {
		c := p.peek
		p.peek = -2
		return c
	}
	b, err := p.r.ReadByte()
	if err != nil {
		return -1
	}
	if b == '\n' {
		p.Line++
	}
	return int(b)
}

func (p *Reader) look() int {
	if p.peek == -2 {
		p.peek = p.next()
	}
	return p.peek
}

func (p *Reader) skipWS() {
	for {
		c := p.look()
		if c == ' ' || c == '\n' || c == '\r' || c == '\t' {
			p.next()
			continue
		}
		return
	}
}

func (p *Reader) expect(s string) error {
	for i := 0; i < len(s); i++ {
		c := p.next()
		if c != int(s[i]) {
			return fmt.Errorf("line %d: expected %q, got %q", p.Line, s, string(rune(c)))
		}
	}
	return nil
}

func isIdent(c int) bool {
	return c == '_' || c >= '0' && c <= '9' || c >= 'a' && c <= 'z' || c >= 'A' && c <= 'Z'
}

func (p *Reader) ident() string {
	var sb strings.Builder
	for isIdent(p.look()) {
		sb.WriteByte(byte(p.next()))
	}
	return sb.String()
}

// State is one block of a TLC -dump file.
type State struct {
	N    int64
	Vars map[string]any
}

// NextState reads the next "State N:" block; returns nil, io.EOF at the end.
func (p *Reader) NextState() (*State, error) {
	p.skipWS()
	if p.look() == -1 {
		return nil, io.EOF
	}
	if err := p.expect("State "); err != nil {
		return nil, err
	}
	nstr := p.ident()
	n, err := strconv.ParseInt(nstr, 10, 64)
	if err != nil {
		return nil, fmt.Errorf("line %d: bad state number %q", p.Line, nstr)
	}
	if err := p.expect(":"); err != nil {
		return nil, err
	}
	st := &State{N: n, Vars: map[string]any{}}
	for {
		p.skipWS()
		c := p.look()
		if c == -1 || c == 'S' && len(st.Vars) > 0 {
			// could be next "State" or a variable starting with S; variables
			// in multi-variable dumps are always prefixed by /\, and in
			// single-variable dumps there is exactly one.
			return st, nil
		}
		if c == '/' {
			if err := p.expect("/\\"); err != nil {
				return nil, err
			}
			p.skipWS()
		} else if len(st.Vars) > 0 {
			return st, nil
		}
		name := p.ident()
		if name == "" {
			return nil, fmt.Errorf("line %d: variable name expected", p.Line)
		}
		p.skipWS()
		if err := p.expect("="); err != nil {
			return nil, err
		}
		v, err := p.Value()
		if err != nil {
			return nil, err
		}
		st.Vars[name] = v
	}
}

// Value parses one value.
func (p *Reader) Value() (any, error) {
	p.skipWS()
	c := p.look()
	switch {
	case c == '"':
		return p.str()
	case c == '-' || c >= '0' && c <= '9':
		var sb strings.Builder
		sb.WriteByte(byte(p.next()))
		for c := p.look(); c >= '0' && c <= '9'; c = p.look() {
			sb.WriteByte(byte(p.next()))
		}
		n, err := strconv.ParseInt(sb.String(), 10, 64)
		if err != nil {
			return nil, fmt.Errorf("line %d: bad int %q", p.Line, sb.String())
		}
		return n, nil
	case c == '<':
		if err := p.expect("<<"); err != nil {
			return nil, err
		}
		elems := []any{}
		p.skipWS()
		if p.look() == '>' {
			return elems, p.expect(">>")
		}
		for {
			v, err := p.Value()
			if err != nil {
				return nil, err
			}
			elems = append(elems, v)
			p.skipWS()
			if p.look() == ',' {
				p.next()
				continue
			}
			return elems, p.expect(">>")
		}
	case c == '{':
		p.next()
		s := Set{Elems: []any{}}
		p.skipWS()
		if p.look() == '}' {
			p.next()
			return s, nil
		}
		for {
			v, err := p.Value()
			if err != nil {
				return nil, err
			}
			s.Elems = append(s.Elems, v)
			p.skipWS()
			if p.look() == ',' {
				p.next()
				continue
			}
			return s, p.expect("}")
		}
	case c == '[':
		p.next()
		rec := map[string]any{}
		p.skipWS()
		if p.look() == ']' {
			p.next()
			return rec, nil
		}
		for {
			p.skipWS()
			name := p.ident()
			p.skipWS()
			if err := p.expect("|->"); err != nil {
				return nil, err
			}
			v, err := p.Value()
			if err != nil {
				return nil, err
			}
			rec[name] = v
			p.skipWS()
			if p.look() == ',' {
				p.next()
				continue
			}
			return rec, p.expect("]")
		}
	case c == '(':
		p.next()
		f := Fn{}
		for {
			k, err := p.Value()
			if err != nil {
				return nil, err
			}
			p.skipWS()
			if err := p.expect(":>"); err != nil {
				return nil, err
			}
			v, err := p.Value()
			if err != nil {
				return nil, err
			}
			f.Keys = append(f.Keys, k)
			f.Vals = append(f.Vals, v)
			p.skipWS()
			if p.look() == '@' {
				if err := p.expect("@@"); err != nil {
					return nil, err
				}
				continue
			}
			return f, p.expect(")")
		}
	case isIdent(c):
		id := p.ident()
		switch id {
		case "TRUE":
			return true, nil
		case "FALSE":
			return false, nil
		}
		return Ident(id), nil
	}
	return nil, fmt.Errorf("line %d: unexpected %q", p.Line, string(rune(c)))
}

func (p *Reader) str() (any, error) {
	p.next()
	var sb strings.Builder
	for {
		c := p.next()
		switch c {
		case -1:
			return nil, fmt.Errorf("line %d: unterminated string", p.Line)
		case '"':
			return sb.String(), nil
		case '\\':
			d := p.next()
			switch d {
			case 'n':
				sb.WriteByte('\n')
			case 't':
				sb.WriteByte('\t')
			case 'r':
				sb.WriteByte('\r')
			case 'f':
				sb.WriteByte('\f')
			default:
				sb.WriteByte(byte(d))
			}
		default:
			sb.WriteByte(byte(c))
		}
	}
}

// ParseString parses a single value from a string.
func ParseString(s string) (any, error) {
	return NewReader(strings.NewReader(s)).Value()
}

// Format renders a value back in TLA+ syntax (canonical: sets and records sorted).
func Format(v any) string {
	var sb strings.Builder
	format(&sb, v)
	return sb.String()
}

func format(sb *strings.Builder, v any) {
	switch x := v.(type) {
	case int64:
		sb.WriteString(strconv.FormatInt(x, 10))
	case int:
		sb.WriteString(strconv.Itoa(x))
	case string:
		sb.WriteString(strconv.Quote(x))
	case bool:
		if x {
			sb.WriteString("TRUE")
		} else {
			sb.WriteString("FALSE")
		}
	case Ident:
		sb.WriteString(string(x))
	case []any:
		sb.WriteString("<<")
		for i, e := range x {
			if i > 0 {
				sb.WriteString(", ")
			}
			format(sb, e)
		}
		sb.WriteString(">>")
	case Set:
		strs := make([]string, len(x.Elems))
		for i, e := range x.Elems {
			strs[i] = Format(e)
		}
		sort.Strings(strs)
		sb.WriteString("{" + strings.Join(strs, ", ") + "}")
	case map[string]any:
		keys := make([]string, 0, len(x))
		for k := range x {
			keys = append(keys, k)
		}
		sort.Strings(keys)
		sb.WriteString("[")
		for i, k := range keys {
			if i > 0 {
				sb.WriteString(", ")
			}
			sb.WriteString(k + " |-> ")
			format(sb, x[k])
		}
		sb.WriteString("]")
	case Fn:
		sb.WriteString("(")
		for i := range x.Keys {
			if i > 0 {
				sb.WriteString(" @@ ")
			}
			format(sb, x.Keys[i])
			sb.WriteString(" :> ")
			format(sb, x.Vals[i])
		}
		sb.WriteString(")")
	default:
		sb.WriteString(fmt.Sprintf("?%T", v))
	}
}

// AsMap views a value as a string-keyed map: a record, a function with string keys,
// or the empty tuple (TLC prints the empty function as << >>).
func AsMap(v any) (map[string]any, bool) {
	switch x := v.(type) {
	case map[string]any:
		return x, true
	case Fn:
		m := make(map[string]any, len(x.Keys))
		for i, k := range x.Keys {
			ks, ok := k.(string)
			if !ok {
				return nil, false
			}
			m[ks] = x.Vals[i]
		}
		return m, true
	case []any:
		if len(x) == 0 {
			return map[string]any{}, true
		}
	}
	return nil, false
}

func isAny(v any) bool {
	t, ok := v.([]any)
	if !ok || len(t) != 1 {
		return false
	}
	s, ok := t[0].(string)
	return ok && s == "ANY"
}

// Equal is structural equality between an expected value (from the specification) and an
// observed one. <<"ANY">> on either side matches anything; an expected <<"oneof", a, b, ...>>
// matches when one of the alternatives does; records, string-keyed functions and the empty
// tuple compare as maps.
func Equal(exp, obs any) bool {
	if isAny(exp) || isAny(obs) {
		return true
	}
	if t, ok := exp.([]any); ok && len(t) >= 2 {
		if s, ok := t[0].(string); ok && s == "oneof" {
			for _, alt := range t[1:] {
				if Equal(alt, obs) {
					return true
				}
			}
			return false
		}
	}
	if em, ok := AsMap(exp); ok {
		if om, ok := AsMap(obs); ok {
			_, eTuple := exp.([]any)
			_, oTuple := obs.([]any)
			if !(eTuple && oTuple) {
				if len(em) != len(om) {
					return false
				}
				for k, ev := range em {
					ov, ok := om[k]
					if !ok || !Equal(ev, ov) {
						return false
					}
				}
				return true
			}
		}
	}
	switch e := exp.(type) {
	case []any:
		o, ok := obs.([]any)
		if !ok || len(o) != len(e) {
			return false
		}
		for i := range e {
			if !Equal(e[i], o[i]) {
				return false
			}
		}
		return true
	case map[string]any, Fn:
		return false
	case Set:
		o, ok := obs.(Set)
		if !ok || len(o.Elems) != len(e.Elems) {
			return false
		}
		return Format(e) == Format(o)
	case int64:
		switch o := obs.(type) {
		case int64:
			return e == o
		case int:
			return e == int64(o)
		}
		return false
	case int:
		return Equal(int64(e), obs)
	default:
		return exp == obs
	}
}

// InSet reports whether obs equals (with wildcards) some member of the expected set.
func InSet(set Set, obs any) bool {
	for _, e := range set.Elems {
		if Equal(e, obs) {
			return true
		}
	}
	return false
}

// Str returns v as string (string or Ident), ok=false otherwise.
func Str(v any) (string, bool) {
	switch x := v.(type) {
	case string:
		return x, true
	case Ident:
		return string(x), true
	}
	return "", false
}
