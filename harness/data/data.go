// Package data builds Go values from the data descriptions of /verif/spec/FData.tla.
package data

import (
	"fmt"
	"math"
	"math/big"
	"strconv"
	"strings"
	"time"

	"github.com/ericlagergren/decimal"

	"verif/harness/tlaval"
)

// S1 is the fixed struct type of "struct" descriptions: exported fields A (any), B (any),
// N (any), and an unexported field c.
type S1 struct {
	A     interface{}
	B     interface{}
	N     interface{}
	Inner // embedded: its field P is promoted
	c     int
}

// rowA and rowB return values of two different struct types that print alike ("data.row"): the types are declared
// locally, with different layouts.
func rowA() interface{} {
	type row struct {
		Name string
		Qty  int
	}
	return row{"bolt", 7}
}

func rowB() interface{} {
	type row struct {
		Qty  int
		Code string
		Name string
	}
	return row{40, "A3", "nut"}
}

// Inner is embedded in S1.
type Inner struct {
	P interface{}
}

type Host interface {
	// Func returns the Go function value for a named harness host function.
	Func(name string) (interface{}, bool)
}

func digitsStr(v any) (string, error) {
	ds, ok := v.([]any)
	if !ok {
		return "", fmt.Errorf("digits expected, got %v", v)
	}
	var sb strings.Builder
	for _, d := range ds {
		n, ok := d.(int64)
		if !ok || n < 0 || n > 9 {
			return "", fmt.Errorf("bad digit %v", d)
		}
		sb.WriteByte(byte('0' + n))
	}
	if sb.Len() == 0 {
		return "0", nil
	}
	return sb.String(), nil
}

func bytesOf(v any) ([]byte, error) {
	t, ok := v.([]any)
	if !ok {
		return nil, fmt.Errorf("bytes expected, got %v", v)
	}
	out := make([]byte, len(t))
	for i, e := range t {
		n, ok := e.(int64)
		if !ok || n < 0 || n > 255 {
			return nil, fmt.Errorf("bad byte %v", e)
		}
		out[i] = byte(n)
	}
	return out, nil
}

func fields(v any) (map[string]any, error) {
	if m, ok := tlaval.AsMap(v); ok {
		return m, nil
	}
	return nil, fmt.Errorf("record expected, got %v", v)
}

// DecimalText renders sign/digits/exp as text.
func DecimalText(neg any, digs any, exp any) (string, error) {
	ds, err := digitsStr(digs)
	if err != nil {
		return "", err
	}
	e, _ := exp.(int64)
	s := ds
	if e != 0 {
		s += "e" + strconv.FormatInt(e, 10)
	}
	if b, _ := neg.(bool); b {
		s = "-" + s
	}
	return s, nil
}

// Build turns a description into a Go value.
func Build(d any, h Host) (interface{}, error) {
	t, ok := d.([]any)
	if !ok || len(t) == 0 {
		return nil, fmt.Errorf("bad description %v", d)
	}
	tag, _ := t[0].(string)
	switch tag {
	case "nil":
		return nil, nil
	case "nilptr":
		return (*S1)(nil), nil
	case "nilbig":
		return (*decimal.Big)(nil), nil
	case "bool":
		return t[1].(bool), nil
	case "str":
		b, err := bytesOf(t[1])
		return string(b), err
	case "int":
		return int(t[1].(int64)), nil
	case "int32":
		return int32(t[1].(int64)), nil
	case "uint":
		return uint(t[1].(int64)), nil
	case "int64":
		ds, err := digitsStr(t[2])
		if err != nil {
			return nil, err
		}
		n, err := strconv.ParseInt(ds, 10, 64)
		if err != nil {
			return nil, err
		}
		if t[1].(bool) {
			n = -n
		}
		return n, nil
	case "f64":
		s, err := DecimalText(t[1], t[2], t[3])
		if err != nil {
			return nil, err
		}
		f, err := strconv.ParseFloat(s, 64)
		if err != nil {
			return nil, err
		}
		// the description must be the decimal the float prints as
		back, _ := new(big.Float).SetString(strconv.FormatFloat(f, 'f', -1, 64))
		want, _ := new(big.Float).SetPrec(2000).SetString(s)
		if back == nil || want == nil || new(big.Float).SetPrec(2000).Set(back).Cmp(want) != 0 {
			// compare through exact rationals
			r1, ok1 := new(big.Rat).SetString(strconv.FormatFloat(f, 'f', -1, 64))
			r2, ok2 := new(big.Rat).SetString(s)
			if !ok1 || !ok2 || r1.Cmp(r2) != 0 {
				return nil, fmt.Errorf("f64 description %s is not the shortest decimal of a float64", s)
			}
		}
		return f, nil
	case "f64nan":
		return math.NaN(), nil
	case "f64inf":
		if t[1].(bool) {
			return math.Inf(-1), nil
		}
		return math.Inf(1), nil
	case "dec":
		s, err := DecimalText(t[1], t[2], t[3])
		if err != nil {
			return nil, err
		}
		b, ok := decimal.WithContext(decimal.Context128).SetString(s)
		if !ok {
			return nil, fmt.Errorf("bad dec %s", s)
		}
		return b, nil
	case "map":
		fs, err := fields(t[1])
		if err != nil {
			return nil, err
		}
		m := map[string]interface{}{}
		for k, v := range fs {
			x, err := Build(v, h)
			if err != nil {
				return nil, err
			}
			m[k] = x
		}
		return m, nil
	case "tmapint":
		fs, err := fields(t[1])
		if err != nil {
			return nil, err
		}
		m := map[string]int{}
		for k, v := range fs {
			m[k] = int(v.(int64))
		}
		return m, nil
	case "tmapstr":
		m, err := fields(t[1])
		if err != nil {
			return nil, err
		}
		out := map[string]string{}
		for k, v := range m {
			b, err := bytesOf(v)
			if err != nil {
				return nil, err
			}
			out[k] = string(b)
		}
		return out, nil
	case "rowA":
		return rowA(), nil
	case "rowB":
		return rowB(), nil
	case "nilmap":
		return map[string]interface{}(nil), nil
	case "nilslice":
		return []interface{}(nil), nil
	case "imap":
		return map[int]int{1: 1}, nil
	case "struct", "ptrstruct":
		fs, err := fields(t[1])
		if err != nil {
			return nil, err
		}
		s := S1{c: 7}
		for k, v := range fs {
			x, err := Build(v, h)
			if err != nil {
				return nil, err
			}
			switch k {
			case "A":
				s.A = x
			case "B":
				s.B = x
			case "N":
				s.N = x
			case "P":
				s.P = x
			default:
				return nil, fmt.Errorf("struct field %s not in S1", k)
			}
		}
		if tag == "ptrstruct" {
			return &s, nil
		}
		return s, nil
	case "slice":
		l, ok := t[1].([]any)
		if !ok {
			return nil, fmt.Errorf("bad slice %v", d)
		}
		out := make([]interface{}, 0, len(l))
		for _, e := range l {
			x, err := Build(e, h)
			if err != nil {
				return nil, err
			}
			out = append(out, x)
		}
		return out, nil
	case "ints":
		l, ok := t[1].([]any)
		if !ok {
			return nil, fmt.Errorf("bad ints %v", d)
		}
		out := make([]int, len(l))
		for i, x := range l {
			n, ok := x.(int64)
			if !ok {
				return nil, fmt.Errorf("bad ints element %v", x)
			}
			out[i] = int(n)
		}
		return out, nil
	case "strs":
		l, ok := t[1].([]any)
		if !ok {
			return nil, fmt.Errorf("bad strs %v", d)
		}
		out := make([]string, 0, len(l))
		for _, e := range l {
			b, err := bytesOf(e)
			if err != nil {
				return nil, err
			}
			out = append(out, string(b))
		}
		return out, nil
	case "time":
		days, _ := t[1].(int64)
		ms, _ := t[2].(int64)
		off, _ := t[3].(int64)
		tm := time.UnixMilli(days*86400000 + ms)
		if off == 0 {
			return tm.UTC(), nil
		}
		return tm.In(time.FixedZone("", int(off))), nil
	case "func":
		name, _ := t[1].(string)
		if h != nil {
			if f, ok := h.Func(name); ok {
				return f, nil
			}
		}
		return nil, fmt.Errorf("unknown host function %q", name)
	}
	return nil, fmt.Errorf("unknown description tag %q", tag)
}

// BuildMap builds a data map from a record of descriptions.
func BuildMap(d any, h Host) (map[string]interface{}, error) {
	fs, err := fields(d)
	if err != nil {
		return nil, err
	}
	m := make(map[string]interface{}, len(fs))
	for k, v := range fs {
		x, err := Build(v, h)
		if err != nil {
			return nil, fmt.Errorf("%s: %v", k, err)
		}
		m[k] = x
	}
	return m, nil
}
