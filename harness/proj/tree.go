// Package proj projects what the real code returns into the canonical nested-tuple
// form used by the TLA+ specification (see /verif/spec/FGrammar.tla, FValues.tla).
package proj

import (
	"reflect"

	formula "github.com/aundis/formula"
)

type T = []any

// KindName maps a SyntaxKind to the token kind used by the specification.
var KindName = map[formula.SyntaxKind]string{
	formula.SK_Unknown: "Unknown", formula.SK_EndOfFile: "EOF",
	formula.SK_NumberLiteral: "Num", formula.SK_StringLiteral: "Str",
	formula.SK_OpenParen: "(", formula.SK_CloseParen: ")", formula.SK_OpenBracket: "[", formula.SK_CloseBracket: "]",
	formula.SK_Dot: ".", formula.SK_DotDotDot: "...", formula.SK_Comma: ",",
	formula.SK_LessThan: "<", formula.SK_GreaterThan: ">", formula.SK_LessThanEquals: "<=", formula.SK_GreaterThanEquals: ">=",
	formula.SK_EqualsEquals: "==", formula.SK_EqualsEqualsEquals: "===", formula.SK_ExclamationEquals: "!=", formula.SK_ExclamationEqualsEquals: "!==",
	formula.SK_Plus: "+", formula.SK_Minus: "-", formula.SK_Asterisk: "*", formula.SK_Slash: "/", formula.SK_Percent: "%",
	formula.SK_Ampersand: "&", formula.SK_Bar: "|", formula.SK_Caret: "^", formula.SK_AmpersandAmpersand: "&&", formula.SK_BarBar: "||",
	formula.SK_QuestionQuestion: "??", formula.SK_Exclamation: "!", formula.SK_ExclamationDot: "!.", formula.SK_ExclamationExclamation: "!!",
	formula.SK_Tilde: "~", formula.SK_Question: "?", formula.SK_Colon: ":", formula.SK_Equals: "=",
	formula.SK_PlusEquals: "+=", formula.SK_MinusEquals: "-=", formula.SK_AsteriskEquals: "*=", formula.SK_SlashEquals: "/=",
	formula.SK_PercentEquals: "%=", formula.SK_LessThanLessThanEquals: "<<=", formula.SK_GreaterThanGreaterThanEquals: ">>=",
	formula.SK_GreaterThanGreaterThanGreaterThanEquals: ">>>=", formula.SK_AmpersandEquals: "&=", formula.SK_BarEquals: "|=", formula.SK_CaretEquals: "^=",
	formula.SK_Identifier:  "Id",
	formula.SK_TrueKeyword: "true", formula.SK_FalseKeyword: "false", formula.SK_NullKeyword: "null",
	formula.SK_ThisKeyword: "this", formula.SK_CtxKeyword: "ctx", formula.SK_TypeofKeyword: "typeof",
}

func kindName(k formula.SyntaxKind) string {
	if s, ok := KindName[k]; ok {
		return s
	}
	return "?"
}

// SpecKind is the kind as the specification's tokens carry it: keywords that are
// literals are "Kw".
func SpecKind(k formula.SyntaxKind) string {
	switch k {
	case formula.SK_TrueKeyword, formula.SK_FalseKeyword, formula.SK_NullKeyword, formula.SK_ThisKeyword, formula.SK_CtxKeyword:
		return "Kw"
	}
	return kindName(k)
}

func isNil(x any) bool {
	if x == nil {
		return true
	}
	v := reflect.ValueOf(x)
	return v.Kind() == reflect.Ptr && v.IsNil()
}

func tokOp(t *formula.TokenNode) any {
	if t == nil {
		return T{"NIL"}
	}
	if t.Token == formula.SK_Unknown && t.Pos() == t.End() {
		return T{"MISSING"}
	}
	return kindName(t.Token)
}

// Tree projects an expression; nil children, missing tokens and absent lists are
// projected as such (<<"NIL">>, <<"MISSING">>), never repaired.
func Tree(e formula.Expression) any {
	if isNil(e) {
		return T{"NIL"}
	}
	switch n := e.(type) {
	case *formula.Identifier:
		return T{"Id", Esc(n.Value)}
	case *formula.LiteralExpression:
		switch n.Token {
		case formula.SK_NumberLiteral:
			return T{"Lit", "Num", LiteralNumber(n)}
		case formula.SK_StringLiteral:
			return T{"Lit", "Str", LiteralString(n)}
		default:
			return T{"Lit", SpecKind(n.Token), kindName(n.Token)}
		}
	case *formula.PrefixUnaryExpression:
		return T{"Pre", tokOp(n.Operator), Tree(n.Operand)}
	case *formula.TypeOfExpression:
		return T{"Typeof", Tree(n.Expression)}
	case *formula.BinaryExpression:
		return T{"Bin", tokOp(n.Operator), Tree(n.Left), Tree(n.Right)}
	case *formula.ConditionalExpression:
		q, c := tokOp(n.QuestionTok), tokOp(n.ColonTok)
		if q != "?" || c != ":" {
			return T{"Cond", Tree(n.Condition), Tree(n.WhenTrue), Tree(n.WhenFalse), q, c}
		}
		return T{"Cond", Tree(n.Condition), Tree(n.WhenTrue), Tree(n.WhenFalse)}
	case *formula.ArrayLiteralExpression:
		return T{"Arr", list(n.Elements)}
	case *formula.ParenthesizedExpression:
		return T{"Paren", Tree(n.Expression)}
	case *formula.SelectorExpression:
		var name any = T{"NIL"}
		if n.Name != nil {
			name = Esc(n.Name.Value)
		}
		return T{"Sel", Tree(n.Expression), name, n.Assert}
	case *formula.CallExpression:
		spread := n.DotDotDotToken != nil
		return T{"Call", Tree(n.Expression), list(n.Arguments), spread}
	}
	return T{"UNKNOWN-NODE"}
}

func list(l *formula.NodeList[formula.Expression]) any {
	if l == nil {
		return T{"NIL"}
	}
	out := T{}
	for i := 0; i < l.Len(); i++ {
		out = append(out, Tree(l.At(i)))
	}
	return out
}

// Esc mirrors FChars.BytesToStr: printable ASCII other than '?' stands for itself,
// every other byte is "?" + two lower-case hex digits.
func Esc(v string) string {
	clean := true
	for i := 0; i < len(v); i++ {
		if c := v[i]; c < 32 || c > 126 || c == '?' {
			clean = false
			break
		}
	}
	if clean {
		return v
	}
	const hex = "0123456789abcdef"
	out := make([]byte, 0, len(v)*3)
	for i := 0; i < len(v); i++ {
		c := v[i]
		if c >= 32 && c <= 126 && c != '?' {
			out = append(out, c)
		} else {
			out = append(out, '?', hex[c>>4], hex[c&15])
		}
	}
	return string(out)
}
