package proj

import (
	"context"
	"fmt"
	"math/big"
	"strings"

	formula "github.com/aundis/formula"
	"github.com/ericlagergren/decimal"
)

// Dec projects a *decimal.Big exactly: canonical <<neg, digits, exp>> (no leading or
// trailing zeros; zero is <<FALSE, <<>>, 0>>), or <<"nan">> / <<"inf", neg>>.
func Dec(b *decimal.Big) any {
	if b == nil {
		return T{"nilbig"}
	}
	if b.IsNaN(0) {
		return T{"nan"}
	}
	if b.IsInf(0) {
		return T{"inf", b.Signbit()}
	}
	_, neg, coef, exp := b.Decompose(nil)
	s := new(big.Int).SetBytes(coef).String()
	return canon(neg, s, int64(exp))
}

func canon(neg bool, digits string, exp int64) any {
	digits = strings.TrimLeft(digits, "0")
	if digits == "" {
		return T{false, T{}, int64(0)}
	}
	t := strings.TrimRight(digits, "0")
	exp += int64(len(digits) - len(t))
	ds := make(T, len(t))
	for i := 0; i < len(t); i++ {
		ds[i] = int64(t[i] - '0')
	}
	return T{neg, ds, exp}
}

// LiteralNumber is the number the real evaluator gives a numeric literal node: the node
// is evaluated as the only element of an array literal (array elements keep the decimal).
func LiteralNumber(n *formula.LiteralExpression) (out any) {
	defer func() {
		if r := recover(); r != nil {
			out = T{"PANIC", fmt.Sprint(r)}
		}
	}()
	l := &formula.NodeList[formula.Expression]{}
	l.Add(n)
	arr := &formula.ArrayLiteralExpression{Elements: l}
	res, err := formula.NewRunner().Resolve(context.Background(), arr)
	if err != nil {
		return T{"err"}
	}
	a, ok := res.([]interface{})
	if !ok || len(a) != 1 {
		return T{"notarray"}
	}
	b, ok := a[0].(*decimal.Big)
	if !ok {
		return T{"notnumber", fmt.Sprintf("%T", a[0])}
	}
	return Dec(b)
}

// DecText renders a canonical <<neg, digits, exp>> as literal text (non-negative only
// where used as a token).
func DecText(v any) (string, bool) {
	t, ok := v.([]any)
	if !ok || len(t) != 3 {
		return "", false
	}
	neg, _ := t[0].(bool)
	ds, ok := t[1].([]any)
	if !ok {
		return "", false
	}
	exp, _ := t[2].(int64)
	var sb strings.Builder
	if neg {
		sb.WriteByte('-')
	}
	if len(ds) == 0 {
		sb.WriteByte('0')
	}
	for _, d := range ds {
		sb.WriteByte(byte('0' + d.(int64)))
	}
	if exp != 0 {
		fmt.Fprintf(&sb, "e%d", exp)
	}
	return sb.String(), true
}
