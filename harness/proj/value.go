package proj

import (
	"context"
	"fmt"
	"math"
	"math/big"
	"reflect"
	"sort"
	"strconv"
	"strings"
	"time"

	formula "github.com/aundis/formula"
	"github.com/ericlagergren/decimal"
)

// Dec projects a *decimal.Big exactly: canonical <<neg, digits, exp>> (no leading or
// trailing zeros; zero is <<FALSE, <<>>, 0>>), or <<"nan">> / <<"inf", neg>>.
func Dec(b *decimal.Big) any {
	if b == nil {
		return T{"nilbig"}
	}
	if b.IsNaN(0) {
		return T{"nan"}
	}
	if b.IsInf(0) {
		return T{"inf", b.Signbit()}
	}
	_, neg, coef, exp := b.Decompose(nil)
	s := new(big.Int).SetBytes(coef).String()
	return canon(neg, s, int64(exp))
}

// Canon is the canonical <<neg, digits, exp>> of sign, decimal digit string and exponent.
func Canon(neg bool, digits string, exp int64) any { return canon(neg, digits, exp) }

func canon(neg bool, digits string, exp int64) any {
	digits = strings.TrimLeft(digits, "0")
	if digits == "" {
		return T{false, T{}, int64(0)}
	}
	t := strings.TrimRight(digits, "0")
	exp += int64(len(digits) - len(t))
	ds := make(T, len(t))
	for i := 0; i < len(t); i++ {
		ds[i] = int64(t[i] - '0')
	}
	return T{neg, ds, exp}
}

// LiteralNumber is the number the real evaluator gives a numeric literal node: the node
// is evaluated as the only element of an array literal (array elements keep the decimal).
func LiteralNumber(n *formula.LiteralExpression) (out any) {
	defer func() {
		if r := recover(); r != nil {
			out = T{"PANIC", fmt.Sprint(r)}
		}
	}()
	l := &formula.NodeList[formula.Expression]{}
	l.Add(n)
	arr := &formula.ArrayLiteralExpression{Elements: l}
	res, err := formula.NewRunner().Resolve(context.Background(), arr)
	if err != nil {
		return T{"err"}
	}
	a, ok := res.([]interface{})
	if !ok || len(a) != 1 {
		return T{"notarray"}
	}
	b, ok := a[0].(*decimal.Big)
	if !ok {
		return T{"notnumber", fmt.Sprintf("%T", a[0])}
	}
	return Dec(b)
}

// LiteralString is the text the real evaluator gives a string literal node (evaluated like
// LiteralNumber); falls back to a tagged tuple when evaluation does not yield a string.
func LiteralString(n *formula.LiteralExpression) (out any) {
	defer func() {
		if r := recover(); r != nil {
			out = T{"PANIC", fmt.Sprint(r)}
		}
	}()
	l := &formula.NodeList[formula.Expression]{}
	l.Add(n)
	arr := &formula.ArrayLiteralExpression{Elements: l}
	res, err := formula.NewRunner().Resolve(context.Background(), arr)
	if err != nil {
		return T{"err"}
	}
	a, ok := res.([]interface{})
	if !ok || len(a) != 1 {
		return T{"notarray"}
	}
	s, ok := a[0].(string)
	if !ok {
		return T{"notstring", fmt.Sprintf("%T", a[0])}
	}
	return bytesSeq([]byte(s))
}

// DecText renders a canonical <<neg, digits, exp>> as literal text (non-negative only
// where used as a token).
func DecText(v any) (string, bool) {
	t, ok := v.([]any)
	if !ok || len(t) != 3 {
		return "", false
	}
	neg, _ := t[0].(bool)
	ds, ok := t[1].([]any)
	if !ok {
		return "", false
	}
	exp, _ := t[2].(int64)
	var sb strings.Builder
	if neg {
		sb.WriteByte('-')
	}
	if len(ds) == 0 {
		sb.WriteByte('0')
	}
	for _, d := range ds {
		sb.WriteByte(byte('0' + d.(int64)))
	}
	if exp != 0 {
		fmt.Fprintf(&sb, "e%d", exp)
	}
	return sb.String(), true
}

// FuncNames maps code pointers of known host functions to their names (filled by the driver).
var FuncNames = map[uintptr]string{}

// Value projects a Go value the evaluator hands out into the specification's value
// domain (FValues.tla). Go ints and floats are numbers, typed nil pointers are null.
func Value(v interface{}) any {
	return value(v, 0, map[uintptr]bool{})
}

// path: the maps and slices being projected above v; a value that contains itself projects as <<"cycle">>
// at the point where it comes round again (and not as an exponentially large unfolding)
func value(v interface{}, depth int, path map[uintptr]bool) any {
	if depth > 12 {
		return T{"deep"}
	}
	switch x := v.(type) {
	case nil:
		return T{"null"}
	case bool:
		return T{"bool", x}
	case string:
		if len(x) > 1<<16 {
			// too large to project byte by byte; only unpinned results get this big
			return T{"str", T{"LARGE", int64(len(x))}}
		}
		return T{"str", bytesSeq([]byte(x))}
	case *decimal.Big:
		if x == nil {
			return T{"other", "nilbig"} // a typed nil number: its own kind, nothing about it is pinned
		}
		return numOf(Dec(x))
	case time.Time:
		return TimeValue(x)
	case context.Context:
		return T{"ctx"}
	}
	rv := reflect.ValueOf(v)
	switch rv.Kind() {
	case reflect.Int, reflect.Int8, reflect.Int16, reflect.Int32, reflect.Int64:
		return numOf(canon(rv.Int() < 0, strings.TrimLeft(strconv.FormatInt(rv.Int(), 10), "-"), 0))
	case reflect.Float32, reflect.Float64:
		f := rv.Float()
		if math.IsNaN(f) {
			return T{"nan"}
		}
		if math.IsInf(f, 0) {
			return T{"inf", f < 0}
		}
		b, ok := decimal.WithContext(decimal.Context128).SetString(strconv.FormatFloat(f, 'f', -1, 64))
		if !ok {
			return T{"badfloat"}
		}
		if f == 0 {
			return numOf(T{false, T{}, int64(0)})
		}
		return numOf(Dec(b))
	case reflect.Uint, reflect.Uint8, reflect.Uint16, reflect.Uint32, reflect.Uint64:
		return T{"other", "uint"}
	case reflect.Ptr:
		if rv.IsNil() {
			return T{"null", true} // typed nil pointer (FValues.TNil)
		}
		if rv.Elem().Kind() == reflect.Struct {
			return T{"other", "ptrstruct"}
		}
		return T{"other", "ptr"}
	case reflect.Slice, reflect.Array:
		if rv.Kind() == reflect.Slice && rv.Len() > 0 {
			if path[rv.Pointer()] {
				return T{"cycle"}
			}
			path[rv.Pointer()] = true
			defer delete(path, rv.Pointer())
		}
		out := T{}
		for i := 0; i < rv.Len(); i++ {
			out = append(out, value(rv.Index(i).Interface(), depth+1, path))
		}
		if rv.Type() != reflect.TypeOf([]interface{}(nil)) {
			return T{"arr", out, goTypeTag(rv.Type())}
		}
		return T{"arr", out}
	case reflect.Map:
		if rv.Type().Key().Kind() != reflect.String {
			return T{"other", "imap"}
		}
		if rv.Len() > 0 {
			if path[rv.Pointer()] {
				return T{"cycle"}
			}
			path[rv.Pointer()] = true
			defer delete(path, rv.Pointer())
		}
		m := map[string]any{}
		it := rv.MapRange()
		for it.Next() {
			m[it.Key().String()] = value(it.Value().Interface(), depth+1, path)
		}
		if rv.Type() != reflect.TypeOf(map[string]interface{}(nil)) {
			return T{"map", m, goTypeTag(rv.Type())}
		}
		return T{"map", m}
	case reflect.Struct:
		m := map[string]any{}
		hidden := []any{}
		for i := 0; i < rv.NumField(); i++ {
			f := rv.Type().Field(i)
			if f.Tag.Get("verif") == "-" {
				continue // filler fields of the driver's synthesised struct types
			}
			if f.Anonymous && rv.Field(i).Kind() == reflect.Struct {
				// an embedded struct: its exported fields are promoted
				if sub, ok := value(rv.Field(i).Interface(), depth+1, path).([]any); ok && len(sub) == 3 {
					for k, v := range sub[1].(map[string]any) {
						m[k] = v
					}
				}
				continue
			}
			if f.IsExported() {
				m[f.Name] = value(rv.Field(i).Interface(), depth+1, path)
			} else {
				hidden = append(hidden, f.Name)
			}
		}
		return T{"struct", m, hidden}
	case reflect.Func:
		if n, ok := FuncNames[rv.Pointer()]; ok {
			return T{"func", n}
		}
		return T{"func", T{"ANY"}}
	}
	return T{"other", rv.Kind().String()}
}

func numOf(d any) any {
	t, ok := d.([]any)
	if !ok || len(t) != 3 {
		return d // nan / inf
	}
	return T{"num", t[0], t[1], t[2]}
}

func bytesSeq(b []byte) T {
	out := make(T, len(b))
	for i, c := range b {
		out[i] = int64(c)
	}
	return out
}

func goTypeTag(t reflect.Type) string {
	switch t.String() {
	case "[]string":
		return "strs"
	case "map[string]int":
		return "tmapint"
	}
	return t.String()
}

// Snapshot renders everything reachable from v with its identity: addresses of pointers,
// maps and slice backing arrays, and the exact contents of every number, so that an
// in-place change of caller-owned data shows up as a different snapshot.
func Snapshot(v interface{}) string {
	var sb strings.Builder
	snapshot(&sb, reflect.ValueOf(v), 0)
	return sb.String()
}

func snapshot(sb *strings.Builder, rv reflect.Value, depth int) {
	if depth > 12 {
		sb.WriteString("<deep>")
		return
	}
	if !rv.IsValid() {
		sb.WriteString("nil")
		return
	}
	if rv.CanInterface() {
		switch x := rv.Interface().(type) {
		case *decimal.Big:
			if x == nil {
				sb.WriteString("(*Big)nil")
				return
			}
			form, neg, coef, exp := x.Decompose(nil)
			fmt.Fprintf(sb, "Big@%p{%d %v %x %d ctx=%v}", x, form, neg, coef, exp, x.Context)
			return
		case time.Time:
			fmt.Fprintf(sb, "time{%d %s}", x.UnixNano(), x.Location())
			return
		}
	}
	switch rv.Kind() {
	case reflect.Interface:
		if rv.IsNil() {
			sb.WriteString("nil")
			return
		}
		snapshot(sb, rv.Elem(), depth)
	case reflect.Ptr:
		if rv.IsNil() {
			fmt.Fprintf(sb, "(%s)nil", rv.Type())
			return
		}
		fmt.Fprintf(sb, "&@%x", rv.Pointer())
		snapshot(sb, rv.Elem(), depth+1)
	case reflect.Map:
		fmt.Fprintf(sb, "map@%x{", rv.Pointer())
		keys := rv.MapKeys()
		sort.Slice(keys, func(i, j int) bool { return fmt.Sprint(keys[i].Interface()) < fmt.Sprint(keys[j].Interface()) })
		for _, k := range keys {
			fmt.Fprintf(sb, "%v:", k.Interface())
			snapshot(sb, rv.MapIndex(k), depth+1)
			sb.WriteByte(',')
		}
		sb.WriteByte('}')
	case reflect.Slice:
		fmt.Fprintf(sb, "slice@%x/%d[", rv.Pointer(), rv.Len())
		for i := 0; i < rv.Len(); i++ {
			snapshot(sb, rv.Index(i), depth+1)
			sb.WriteByte(',')
		}
		sb.WriteByte(']')
	case reflect.Struct:
		sb.WriteString(rv.Type().String() + "{")
		for i := 0; i < rv.NumField(); i++ {
			if rv.Type().Field(i).IsExported() {
				snapshot(sb, rv.Field(i), depth+1)
			} else {
				fmt.Fprintf(sb, "%v", rv.Field(i))
			}
			sb.WriteByte(',')
		}
		sb.WriteByte('}')
	case reflect.Func:
		fmt.Fprintf(sb, "func@%x", rv.Pointer())
	default:
		fmt.Fprintf(sb, "%s(%v)", rv.Kind(), rv)
	}
}

// TimeValue projects a time as <<"time", days, ms, off>>: the instant as whole days and
// milliseconds of the day since the Unix epoch (UTC) and the zone offset Go reports for it.
func TimeValue(x time.Time) any {
	ms := x.UnixMilli()
	days := ms / 86400000
	rem := ms % 86400000
	if rem < 0 {
		rem += 86400000
		days--
	}
	_, off := x.Zone()
	return T{"time", days, rem, int64(off)}
}
