// fv - conformance driver binding the TLA+ specification under /verif/spec to the
// real aundis/formula code (built from /repo's working tree, tag verif).
package main

import (
	"flag"
	"fmt"
	"os"
	"time"

	"verif/harness/fam"
)

func usage() {
	fmt.Fprintln(os.Stderr, "usage: fv replay <family> <dump> [-workers n] | fv one <family> <statefile> | fv record <family> [flags] | fv canary")
	os.Exit(2)
}

func main() {
	// the models' process-local zone is UTC unless VERIF_TZ names another one (trace direction)
	time.Local = time.UTC
	if tz := os.Getenv("VERIF_TZ"); tz != "" {
		loc, err := time.LoadLocation(tz)
		if err != nil {
			fmt.Fprintln(os.Stderr, "fv: VERIF_TZ:", err)
			os.Exit(2)
		}
		time.Local = loc
	}
	if len(os.Args) < 2 {
		usage()
	}
	switch os.Args[1] {
	case "replay":
		if len(os.Args) < 4 {
			usage()
		}
		fs := flag.NewFlagSet("replay", flag.ExitOnError)
		workers := fs.Int("workers", 0, "worker goroutines")
		fs.Parse(os.Args[4:])
		f, err := os.Open(os.Args[3])
		if err != nil {
			fmt.Fprintln(os.Stderr, err)
			os.Exit(2)
		}
		code, err := fam.Replay(os.Args[2], f, *workers, os.Stdout)
		if err != nil {
			fmt.Fprintln(os.Stderr, "fv:", err)
		}
		os.Exit(code)
	case "one":
		if len(os.Args) < 4 {
			usage()
		}
		f, err := os.Open(os.Args[3])
		if err != nil {
			fmt.Fprintln(os.Stderr, err)
			os.Exit(2)
		}
		code, err := fam.One(os.Args[2], f, os.Stdout)
		if err != nil {
			fmt.Fprintln(os.Stderr, "fv:", err)
		}
		os.Exit(code)
	case "record":
		if len(os.Args) < 3 {
			usage()
		}
		os.Exit(fam.Record(os.Args[2], os.Args[3:]))
	case "canary":
		os.Exit(fam.Canary())
	default:
		usage()
	}
}
