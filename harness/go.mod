module verif/harness

go 1.18

require (
	github.com/aundis/formula v0.0.0
	github.com/ericlagergren/decimal v0.0.0-20221120152707-495c53812d05
)

replace github.com/aundis/formula => /repo
