------------------------------ MODULE FRunner ------------------------------
(***************************************************************************)
(* The API-level state machine: caller-owned data maps (heap), runners     *)
(* with a data map that is *aliased* to a caller map after SetThis, and a  *)
(* separate auxiliary key-value store per runner.                          *)
(*                                                                         *)
(*   heap : map id -> [name |-> value]          the caller's maps          *)
(*   run  : runner -> [this, aux]                                          *)
(*     this = <<"unset">> | <<"ref", id>> | <<"own", map>>                 *)
(*     aux  = [key |-> value]                                              *)
(* Operations (one action each): SetThis(r, id | nil), SetThisValue(r,k,v),*)
(* Resolve(r, tree), Set(r,k,v), Get(r,k).                                 *)
(***************************************************************************)
EXTENDS FEval, FData

EmptyMap == <<>>    \* the function with empty domain

CurMap(heap, rn) ==
  CASE rn.this[1] = "unset" -> EmptyMap
    [] rn.this[1] = "ref" -> heap[rn.this[2]]
    [] rn.this[1] = "own" -> rn.this[2]

\* write map m back as the runner's current map
WriteBack(heap, rn, m) ==
  IF rn.this[1] = "ref" THEN <<[heap EXCEPT ![rn.this[2]] = m], rn>>
  ELSE <<heap, [rn EXCEPT !.this = <<"own", m>>]>>

\* SetThis(m): alias the caller's map; SetThis(nil): no map
DoSetThis(heap, rn, id) ==
  <<heap, [rn EXCEPT !.this = IF id = "nil" THEN <<"unset">> ELSE <<"ref", id>>]>>

\* SetThisValue: creates a private map when there is none, else writes through
DoSetThisValue(heap, rn, k, v) == WriteBack(heap, rn, Bind(CurMap(heap, rn), k, v))

\* Resolve: evaluate against the current map; the map changes only by "$" bindings, which
\* persist (also when the evaluation ends in an error)
\* result: <<outcome, heap', rn'>> with outcome <<"ok", v>> | <<"err">> | <<"unspec">>
DoResolve(heap, rn, tree) ==
  LET m == CurMap(heap, rn)
      o == Eval(tree, [this |-> m, log |-> <<>>])
  IN IF o[1] = "unspec" THEN << <<"unspec">>, heap, rn >>
     ELSE LET st1 == IF o[1] = "ok" THEN o[3] ELSE o[2]
              wb == IF st1.this = m THEN <<heap, rn>> ELSE WriteBack(heap, rn, st1.this)
          IN << IF o[1] = "ok" THEN <<"ok", o[2], st1.log>> ELSE <<"err", st1.log>>, wb[1], wb[2] >>

DoSet(rn, k, v) == [rn EXCEPT !.aux = Bind(rn.aux, k, v)]
DoGet(rn, k) == IF k \in DOMAIN rn.aux THEN rn.aux[k] ELSE Null
=============================================================================
