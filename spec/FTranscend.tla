----------------------------- MODULE FTranscend -----------------------------
(* exp to ~28 significant digits in fixed-point digit arithmetic (C18).      *)
(* A fixed-point number is a natural n (digit sequence) denoting n * 10^-P.  *)
(* exp(y) for y >= 0 is e^m * exp(f), m the integer part and f the fraction: *)
(* e^m by repeated multiplication of a 32-decimal constant, exp(f) by its    *)
(* Taylor series until the terms vanish (f < 1: fewer than 40 terms).  Every *)
(* product and quotient truncates, losing < 1 unit of 10^-32 each; with at   *)
(* most ~100 operations of relative size < 3 the relative error stays below  *)
(* 10^-28, thirteen orders of magnitude under the 15 digits that are judged. *)
(* ln and log are judged through exp (r = ln x iff exp(r) = x).              *)
EXTENDS FDecimal

PFix == 32
OneFix == PowTen(PFix)
EFix  == <<2,7,1,8,2,8,1,8,2,8,4,5,9,0,4,5,2,3,5,3,6,0,2,8,7,4,7,1,3,5,2,6,6>>      \* e        * 10^32
Ln10Fix == <<2,3,0,2,5,8,5,0,9,2,9,9,4,0,4,5,6,8,4,0,1,7,9,9,1,4,5,4,6,8,4,3,6>>   \* ln 10    * 10^32
FMulT(a, b) == LET p == NatMul(a, b) IN IF Len(p) <= PFix THEN <<>> ELSE SubSeq(p, 1, Len(p) - PFix)
FDivSmall(a, n) == NatDivMod(a, NatOfInt(n))[1]

RECURSIVE TaylorFix(_, _, _, _)
TaylorFix(f, term, n, sum) ==
  IF term = <<>> \/ n > 60 THEN sum
  ELSE LET t2 == FDivSmall(FMulT(term, f), n) IN TaylorFix(f, t2, n + 1, NatAdd(sum, t2))
ExpFracFix(f) == TaylorFix(f, OneFix, 1, OneFix)                  \* f < 10^32 : a fraction in [0, 1)
RECURSIVE EPowFix(_)
EPowFix(m) == IF m = 0 THEN OneFix ELSE FMulT(EPowFix(m - 1), EFix)

\* fixed-point value (truncated) of a non-negative decimal d
ToFix(d) == IF DIsZero(d) THEN <<>>
            ELSE IF d[3] + PFix >= 0 THEN NatShift(d[2], d[3] + PFix)
            ELSE IF Len(d[2]) + d[3] + PFix <= 0 THEN <<>>
            ELSE SubSeq(d[2], 1, Len(d[2]) + d[3] + PFix)
IntPartFix(x) == IF Len(x) <= PFix THEN 0 ELSE IntOfNat(SubSeq(x, 1, Len(x) - PFix))
FracPartFix(x) == IF Len(x) <= PFix THEN x ELSE StripLead(SubSeq(x, Len(x) - PFix + 1, Len(x)))
\* exp(y), y a non-negative decimal of at most a few hundred, as a decimal with ~28 correct digits
ExpApprox(y) == LET x == ToFix(y) IN Canon(FALSE, FMulT(EPowFix(IntPartFix(x)), ExpFracFix(FracPartFix(x))), -PFix)

\* |a - b| <= tol * |b|   (tol a positive decimal)
RelClose(a, b, tol) == DCmpAbs(DAddExact(a, DNeg(b)), DMulExact(DAbs(b), tol)) <= 0
Eps15 == <<FALSE, <<5>>, -15>>          \* half a unit of the 15th significant digit
Slack == <<FALSE, <<1>>, -26>>

\* r agrees with exp(x) to 15 significant digits
IsExp(x, r) ==
  IF x[1] THEN RelClose(DMulExact(r, ExpApprox(DAbs(x))), DOne, DAddExact(Eps15, Slack))      \* r * exp(|x|) = 1
  ELSE RelClose(r, ExpApprox(x), DAddExact(Eps15, Slack))
\* r agrees with ln(x) to 15 significant digits: exp(r) = x up to the factor exp(+-5e-15 |r|)
IsLnScaled(x, r, scale) ==      \* exp(r * scale) = x, tolerance |r * scale| * 5e-15
  LET y == DMulExact(r, scale)
      tol == DAddExact(DMulExact(DAbs(y), Eps15), Slack)
  IN IF y[1] THEN RelClose(DMulExact(x, ExpApprox(DAbs(y))), DOne, tol)
     ELSE RelClose(x, ExpApprox(y), tol)
IsLn(x, r) == IsLnScaled(x, r, DOne)
IsLog10(x, r) == IsLnScaled(x, r, Canon(FALSE, Ln10Fix, -PFix))
\* r agrees with sqrt(x) to 15 significant digits: r^2 = x up to the factor (1 +- 5e-15)^2
IsSqrt(x, r) == ~r[1] /\ RelClose(DMulExact(r, r), x, <<FALSE, <<1,0,0,0,1>>, -18>>)
=============================================================================
