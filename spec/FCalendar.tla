----------------------------- MODULE FCalendar -----------------------------
(* The proleptic Gregorian calendar on integers (C19).  A time value is     *)
(*   <<"time", days, ms, off>> :                                            *)
(* the instant days * 86 400 000 + ms milliseconds after 1970-01-01T00:00Z  *)
(* (0 <= ms < 86 400 000) observed in a zone off seconds east of UTC.       *)
(* Zone *rules* are not part of the specification: an offset is an input.   *)
EXTENDS Integers, Sequences

DaysFromCivil(y, m, d) ==       \* m in 1..12, any d
  LET y1 == IF m <= 2 THEN y - 1 ELSE y
      era == y1 \div 400
      yoe == y1 - era * 400
      mp == (m + 9) % 12
      doy == (153 * mp + 2) \div 5 + d - 1
      doe == yoe * 365 + yoe \div 4 - yoe \div 100 + doy
  IN era * 146097 + doe - 719468

CivilFromDays(z0) ==            \* <<y, m, d>>
  LET z == z0 + 719468
      era == z \div 146097
      doe == z - era * 146097
      yoe == (doe - doe \div 1460 + doe \div 36524 - doe \div 146096) \div 365
      doy == doe - (365 * yoe + yoe \div 4 - yoe \div 100)
      mp == (5 * doy + 2) \div 153
      d == doy - (153 * mp + 2) \div 5 + 1
      m == IF mp < 10 THEN mp + 3 ELSE mp - 9
  IN <<yoe + era * 400 + (IF m <= 2 THEN 1 ELSE 0), m, d>>

\* months and days outside their ranges carry over
NormDays(y, m, d) ==
  LET m0 == m - 1  y2 == y + m0 \div 12  m2 == (m0 % 12) + 1 IN DaysFromCivil(y2, m2, 1) + d - 1

IsLeap(y) == (y % 4 = 0 /\ y % 100 # 0) \/ y % 400 = 0
DaysInMonth(y, m) == IF m = 2 THEN (IF IsLeap(y) THEN 29 ELSE 28) ELSE IF m \in {4, 6, 9, 11} THEN 30 ELSE 31
WeekDay(days) == (days + 4) % 7                     \* 1970-01-01 was a Thursday; Sunday = 0

\* local civil fields of a time: <<y, m, d, hh, mm, ss, weekday>>
MsPerDay == 86400000
LocalFields(t) ==
  LET lms == t[3] + t[4] * 1000                       \* may leave 0..MsPerDay-1
      ld == t[2] + lms \div MsPerDay
      lm == lms % MsPerDay
      c == CivilFromDays(ld)
      s == lm \div 1000
  IN <<c[1], c[2], c[3], s \div 3600, (s \div 60) % 60, s % 60, WeekDay(ld)>>

\* the time whose local fields in a zone of offset off are (days, second of day)
OfLocal(ldays, lsec, msfrac, off) ==
  LET total == lsec - off                              \* seconds relative to the local day's UTC midnight
      dd == ldays + total \div 86400
      ss == total % 86400
  IN <<"time", dd, ss * 1000 + msfrac, off>>
=============================================================================
