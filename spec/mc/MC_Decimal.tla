----------------------------- MODULE MC_Decimal -----------------------------
(* The arithmetic oracle checks itself (C04, C05, C18): on a grid of naturals *)
(* and decimals TLC verifies the algebra FDecimal must satisfy before it is   *)
(* used to judge the implementation.                                          *)
EXTENDS FDecimal, TLC

Nats == { <<>>, <<1>>, <<9>>, <<1,0>>, <<9,9>>, <<1,2,3>>, <<9,9,9,9,9>>, <<1,0,0,0,0,0,1>>,
          <<1,2,3,4,5,6,7,8,9,0,1,2,3,4,5,6,7>>, [i \in 1..34 |-> 9], [i \in 1..34 |-> (i * 7) % 10] , <<5>> \o Zeros(20) }
Decs == { DZero, Canon(FALSE, <<1>>, 0), Canon(TRUE, <<1>>, 0), Canon(FALSE, <<1>>, -1), Canon(FALSE, <<2>>, -1), Canon(FALSE, <<3>>, -1),
          Canon(TRUE, <<7,5>>, -1), Canon(FALSE, [i \in 1..34 |-> 3], -34), Canon(FALSE, [i \in 1..34 |-> 9], 0), Canon(FALSE, <<1>>, 20),
          Canon(TRUE, <<1,2,3,4,5>>, -7), Canon(FALSE, <<4,5>>, 0), Canon(FALSE, <<2>>, 0) }

\* one state per pair of naturals and per pair of decimals
VARIABLES a, b, x, y
Init == a \in Nats /\ b \in Nats /\ x \in Decs /\ y \in Decs /\ ((a = <<>> /\ b = <<>>) \/ (x = DZero /\ y = DZero))
Next == UNCHANGED <<a, b, x, y>>
Spec == Init /\ [][Next]_<<a, b, x, y>>

NatLaws ==
  /\ NatMul(a, b) = NatMulConv(a, b)                            \* two independent definitions of the product agree
  /\ NatMul(a, b) = NatMul(b, a)
  /\ NatAdd(a, b) = NatAdd(b, a)
  /\ NatSub(NatAdd(a, b), b) = a
  /\ NatCmp(a, b) = -NatCmp(b, a)
  /\ (b # <<>> => LET qr == NatDivMod(a, b) IN NatAdd(NatMul(qr[1], b), qr[2]) = a /\ NatCmp(qr[2], b) < 0)
ShortDivisor(d) == Len(d[2]) <= 5
DecLaws ==
     /\ DAdd(x, y) = DAdd(y, x) /\ DMul(x, y) = DMul(y, x)
     /\ DIsZero(DSub(x, x))
     /\ DCmp(x, y) = -DCmp(y, x)
     /\ (DCmp(x, y) = 0 <=> x = y)                               \* canonical forms: equal value, equal representation
     /\ ((~DIsZero(y) /\ ShortDivisor(y)) => DIsQuo(x, y, DQuo(x, y)))
     /\ ((~DIsZero(y) /\ ShortDivisor(y)) => LET r == DRem(x, y) IN DCmp(DAbs(r), DAbs(y)) < 0 /\ (DIsZero(r) \/ r[1] = x[1]))
     /\ DAddExact(DFloor(x), DNeg(x))[1] \/ DIsZero(DAddExact(DFloor(x), DNeg(x)))      \* floor(x) <= x
     /\ DIsInt(DFloor(x)) /\ DIsInt(DCeil(x)) /\ DIsInt(DRoundHalfEven(x))
=============================================================================
