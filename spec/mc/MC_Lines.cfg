SPECIFICATION Spec
CONSTANT K = 5
INVARIANT StartsIncrease
INVARIANT StartsInText
INVARIANT LineColMonotone
INVARIANT LineColInverse
CHECK_DEADLOCK FALSE
