SPECIFICATION Spec
CONSTANT MaxParams = 2
CONSTANT Kinds = {"string", "bool", "int", "int8", "int16", "int32", "int64", "float32", "float64", "any", "big", "time", "strs", "ints", "anys", "i32s", "smap", "appctx"}
INVARIANT Decided
INVARIANT SpreadNeedsVariadic
INVARIANT ArityFixed
INVARIANT ArityVariadic
INVARIANT ReceivedCount
CHECK_DEADLOCK FALSE
