SPECIFICATION Spec
CONSTANT N = 3
INVARIANT Functional
CHECK_DEADLOCK FALSE
