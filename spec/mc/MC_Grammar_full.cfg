SPECIFICATION Spec
CONSTANT K = 3
CONSTANT Alphabet <- FullAlphabet
INVARIANT GrammarSound
INVARIANT ParseTotal
INVARIANT EmptyRejected
INVARIANT RangesNest
INVARIANT SubtextReparses
CHECK_DEADLOCK FALSE
