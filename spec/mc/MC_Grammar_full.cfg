SPECIFICATION Spec
CONSTANT K = 3
CONSTANT Alphabet <- FullAlphabet
INVARIANT GrammarSound
INVARIANT ParseTotal
INVARIANT EmptyRejected
CHECK_DEADLOCK FALSE
