----------------------------- MODULE MC_Lexer -----------------------------
(* Bounded-exhaustive enumeration of texts: every concatenation of up to K *)
(* units (byte sequences) between a fixed prefix and suffix.  Each state   *)
(* carries the specification's tokenisation lx and its parse result e;     *)
(* the lexical invariants are checked in every state and the dump is       *)
(* replayed into the real scanner ("lex") and parser ("lexparse").         *)
EXTENDS FLexer, FGrammar, TLC
CONSTANTS K, Units, Prefix, Suffix

S(str) == str   \* readability only

\* unit alphabets (byte sequences)
UnitsScan == << <<97>>, <<101>>, <<120>>, <<48>>, <<49>>, <<95>>, <<46>>, <<33>>, <<61>>, <<39>>,
                <<92>>, <<110>>, <<32>>, <<10>>, <<43>>, <<64>>, <<195,169>>, <<226,128,168>>, <<255>>, <<117>>, <<13>> >>
\*              a      e       x       0      1      _      .      !      =      '
\*              \      n       space   LF     +      @      e-acute       U+2028        0xFF   u   CR
UnitsOps  == << <<33>>, <<61>>, <<46>>, <<38>>, <<124>>, <<63>>, <<60>>, <<62>>, <<97>>, <<49>>,
                <<32>>, <<10>>, <<194,160>>, <<64>>, <<194,133>>, <<40>> >>
\*              !      =      .      &      |       ?      <      >      a      1   space  LF  NBSP  @  NEL(U+0085)  (
UnitsNum  == << <<48>>, <<49>>, <<57>>, <<46>>, <<101>>, <<69>>, <<43>>, <<45>>, <<95>>, <<97>>, <<120>> >>
\*              0      1      9      .      e       E      +      -      _      a      x
UnitsWord == << <<116>>, <<114>>, <<117>>, <<101>>, <<32>>, <<46>>, <<36>>, <<49>>, <<40>>, <<41>>, <<116,114,117,101>>, <<195,169>>, <<204,129>> >>
\*              t       r       u       e      space   .      $      1      (      )      true      e-acute      U+0301 (identifier part only)
\* long literals: ten-digit blocks, so that <= 5 units reach 50 significant digits
UnitsLong == << <<49,50,51,52,53,54,55,56,57,48>>, <<48,48,48,48,48,48,48,48,48,48>>, <<57,57,57,57,57,57,57,57,57,53>>,
                <<46>>, <<49>>, <<101,45,51>>, <<95>>, <<101>> >>
\*              1234567890   0000000000   9999999995   .   1   e-3   _   e  (an exponent padded with twenty zeros)
NoBytes == <<>>
Bracket == <<91>>
Unbracket == <<93>>

RECURSIVE Cat(_, _)
Cat(u, i) == IF i > Len(u) THEN <<>> ELSE Units[u[i]] \o Cat(u, i + 1)
TextOf(u) == Prefix \o Cat(u, 1) \o Suffix

ParseOf(lx) == IF lx.st = "free" THEN <<"FREE">>
               ELSE IF lx.st = "bad" THEN <<"REJECT">>
               ELSE ParseTokens(GToks(lx.toks))

VARIABLES u, text, lx, e
vars == <<u, text, lx, e>>

Init == /\ u = <<>> /\ text = TextOf(<<>>)
        /\ lx = LexAll(TextOf(<<>>)) /\ e = ParseOf(LexAll(TextOf(<<>>)))
Next == /\ Len(u) < K
        /\ \E i \in 1..Len(Units) :
             /\ u' = Append(u, i)
             /\ text' = TextOf(u')
             /\ lx' = LexAll(text')
             /\ e' = ParseOf(lx')
Spec == Init /\ [][Next]_vars

LexTiling == Tiling(text, lx)
LexLongest == LongestMatch(text, lx)
\* every well-formed token list ends at the end of input; a lexeme that is not "ok"
\* starts inside the text
LexProgress == IF lx.st = "ok" THEN lx.toks[Len(lx.toks)][4] = Len(text) ELSE lx.at < Len(text)
ParseTotal == e[1] \in {"OK", "REJECT", "FREE"}
GrammarSoundOnLexed == (lx.st = "ok") => Sound(GToks(lx.toks), e)
=============================================================================
