---------------------------- MODULE MC_Eval_c07 ----------------------------
(* Program family of C07 for MC_EvalBase: locals, sequencing, frame *)
EXTENDS MC_EvalBase

\* ---- C07: locals, sequencing, frame
E7a == { Id("$a"), Id("$b"), Id("x"), SelE(Id("y"), "k"), N(1), N(2), Id("n") }
E7b == E7a \cup { Asg("$a", e) : e \in E7a } \cup { Asg("$b", e) : e \in E7a }
           \cup { Call1("rec", e) : e \in E7a } \cup { <<"Pre", "-", e>> : e \in {Id("x"), Id("$a"), SelE(Id("y"), "k")} }
           \cup { <<"Bin", "+", a, b>> : a \in {Id("$a"), Id("x"), N(1)}, b \in {Id("$a"), Id("x"), N(1)} }
           \cup { Call1("abs", SelE(Id("y"), "k")), <<"Call", Id("max"), <<Id("x"), SelE(Id("y"), "k")>>, FALSE>>,
                  <<"Call", Id("min"), <<Id("x"), SelE(Id("y"), "k")>>, FALSE>>, Call1("fail", N(1)),
                  Asg("x", N(1)), <<"Bin", "=", SelE(Id("y"), "k"), N(1)>>, <<"Bin", "=", N(1), N(2)>>, Asg("x", Asg("$a", N(1))),
                  <<"Bin", "=", SelE(Id("$a"), "k"), N(1)>>, <<"Bin", "=", SelE(Id("$b"), "x"), Id("x")>>,     \* a member of a local is no bare name either
                  Asg("n$", N(1)), Asg("x$y", Id("x")), Asg("_$", N(2)),          \* "$" inside or at the end of a name does not make a local
                  <<"Call", Id("mapToArr"), <<Id("rows"), S(<<110,97,109,101>>)>>, FALSE>>, Call1("rec", Id("rows")), Call1("len", Id("rows")),      \* the caller's nested maps (one entry is nil) handed to builtins
                  SelE(Id("y"), "l"), Call1("floor", SelE(Id("y"), "k")), <<"Bin", "*", Id("x"), SelE(Id("y"), "k")>> }
Par7(e) == IF Level(e) >= 1 THEN e ELSE P(e)
GroupsC07 == { <<"one">> } \cup { <<"comma", a>> : a \in E7b } \cup { <<"arr", a>> : a \in E7b } \cup { <<"recs", a>> : a \in E7b }
             \cup { <<"cond">>, <<"seq3">>, <<"callee">> }
GroupProgramsC07(g) ==
  CASE g[1] = "one" -> E7b
    [] g[1] = "comma" -> { <<"Bin", ",", g[2], b>> : b \in E7b }
    [] g[1] = "arr" -> { <<"Arr", <<g[2], b>>>> : b \in E7b }
    [] g[1] = "recs" -> { <<"Call", Id("recs"), <<g[2], b>>, FALSE>> : b \in E7b }
    [] g[1] = "cond" -> { <<"Cond", c, a, b>> : c \in {Id("$a"), N(0), P(Asg("$b", N(1)))}, a \in E7a \cup {Asg("$a", N(2))}, b \in E7a \cup {Asg("$a", N(1))} }
    \* left to right also inside a call: the callee is read before the arguments are evaluated, so a local rebound in an
    \* argument does not change which function is called
    [] g[1] = "callee" ->
         { <<"Bin", ",", Asg("$a", Id(f1)), <<"Call", Id("$a"), <<P(<<"Bin", ",", Asg("$a", v2), e>>)>>, FALSE>>>> :
              f1 \in {"rec", "fail"}, v2 \in {Id("rec"), Id("fail"), N(5), KwL("null")}, e \in {N(1), Id("x")} }
         \cup { <<"Bin", ",", Asg("$a", Id("y")), <<"Sel", Id("$a"), "k", FALSE>>>>,
                <<"Bin", ",", <<"Bin", ",", Asg("$a", Id("rec")), <<"Call", Id("$a"), <<Asg("$b", N(2)), <<"Bin", "+", Id("$b"), N(1)>>>>, FALSE>>>>, Id("$b")>> }
    [] g[1] = "seq3" -> { <<"Bin", ",", <<"Bin", ",", a, b>>, c>> : a \in {Asg("$a", N(1)), Asg("$a", Id("x"))},
                            b \in {Asg("$b", Id("$a")), Asg("$a", <<"Bin", "+", Id("$a"), N(1)>>), Call1("rec", Id("$a"))},
                            c \in {Id("$a"), Id("$b"), <<"Arr", <<Id("$a"), Id("$b")>>>>} }
=============================================================================
