SPECIFICATION Spec
CONSTANT Groups <- GroupsC19
CONSTANT GroupPrograms <- GroupProgramsC19
CONSTANT DataIds = {"D3"}
INVARIANT Reparse
INVARIANT EvalTotal
INVARIANT CalendarSane
CHECK_DEADLOCK FALSE
