SPECIFICATION Spec
INVARIANT StartIsPart
INVARIANT WSandLBDisjoint
INVARIANT TriviaNotIdent
INVARIANT ConstantToNext
CHECK_DEADLOCK FALSE
