---------------------------- MODULE MC_Eval_c17 ----------------------------
(* Program family of C17 for MC_EvalBase: the string and list builtins on   *)
(* all strings over {a, b} up to length 3 (plus multi-byte, upper-case and  *)
(* whitespace variants), all integer positions from -2 to beyond the       *)
(* length, and the algebraic laws that relate them - as formulas whose      *)
(* value the specification computes, and as invariants on the specification *)
(* itself (LawLeftRight, LawFind, LawPad, ...).                             *)
EXTENDS MC_EvalBase

Strs2 == {<<>>, <<97>>, <<98>>, <<97,97>>, <<97,98>>, <<98,97>>, <<98,98>>,
          <<97,97,97>>, <<97,98,97>>, <<97,98,98>>, <<98,97,98>>, <<97,98,97,98>>, <<98,98,98>>,
          <<195,169>>, <<97,195,169>>, <<195,169,97>>}
StrsCase == {<<195,169>>, <<79,82,68,69,82,45,195,177>>, <<206,145,206,179>>, <<209,143,65,228,184,173>>, <<104,195,137,108,108,111>>, <<11,97,12>>, <<13,10,97,32,9>>, <<65>>, <<97,66>>, <<32,97,32>>, <<9,97,10>>, <<32,32>>, <<97,32,98>>, <<65,98,67>>}
Ints == -2..5
I(n) == IF n < 0 THEN <<"Pre", "-", N(-n)>> ELSE N(n)
C(f, as) == <<"Call", Id(f), as, FALSE>>
L(ss) == <<"Arr", [i \in 1..Len(ss) |-> S(ss[i])]>>
Lists == { <<>>, <<<<97>>>>, <<<<97>>, <<98>>>>, <<<<97,98>>, <<97>>>>, <<<<>>, <<97>>, <<>>>> }

Subjects == {<<>>, <<97>>, <<98>>, <<99>>, <<97,98>>, <<98,97>>, <<97,99>>, <<97,98,99>>, <<97,98,97,98>>, <<99,97,98>>, <<97,120,98>>,
             <<98,98,99>>, <<97,98,98,98>>, <<97,99,99,97>>, <<98,99,98,99,97>>, <<120>>,
             <<97,97>>, <<97,123,50,125>>, <<97,98,123,50,125>>, <<98,123,49,44,50,125>>}      \* aa, and pattern texts as subjects: a{2} ab{2} b{1,2}
GroupsC17 == { <<"re", p>> : p \in RePool } \cup { <<"pair", s>> : s \in Strs2 } \cup { <<"pos", s>> : s \in Strs2 } \cup { <<"one">>, <<"lists">> }
             \cup { <<"pad", s>> : s \in Strs2 } \cup { <<"law", s>> : s \in Strs2 }
GroupProgramsC17(g) ==
  CASE g[1] = "re" -> { C("regexp", <<S(sub), S(ReRender(g[2]))>>) : sub \in Subjects }
    [] g[1] = "pair" ->
         { C(f, <<S(g[2]), S(t)>>) : f \in {"startWith", "endWith", "contains", "find"}, t \in Strs2 }
         \cup { C("replace", <<S(g[2]), S(o), S(n)>>) : o \in {<<>>, <<97>>, <<98>>, <<97,98>>, <<97,97>>, <<195,169>>}, n \in {<<>>, <<120>>, <<97,97>>, <<36,49>>, <<36,36>>, <<36,123,120,125>>, <<92,49>>} }
    [] g[1] = "pos" ->
         { C(f, <<S(g[2]), I(n)>>) : f \in {"left", "right"}, n \in Ints }
         \cup { C("mid", <<S(g[2]), I(i), I(j)>>) : i \in Ints, j \in Ints }
         \cup { C("left", <<S(g[2]), ND(FALSE, <<1,9>>, -1)>>), C("right", <<S(g[2]), <<"Pre", "-", ND(FALSE, <<5>>, -1)>>>>) }   \* 1.9 -> 1, -0.5 -> 0
    [] g[1] = "one" ->
         { C(f, <<S(s)>>) : f \in {"len", "lower", "upper", "trim"}, s \in Strs2 \cup StrsCase }
    [] g[1] = "pad" ->
         { C(f, <<S(g[2]), S(p), I(n)>>) : f \in {"lpad", "rpad"}, p \in {<<120>>, <<>>, <<120,121>>, <<195,169>>, <<32>>}, n \in Ints \cup {7} }
    [] g[1] = "lists" ->
         { C("includes", <<L(l), S(s)>>) : l \in Lists, s \in {<<>>, <<97>>, <<98>>, <<97,98>>} }
         \cup { C("join", <<L(l), S(s)>>) : l \in Lists, s \in {<<>>, <<44>>, <<97,98>>} }
         \cup { C("includes", <<Id("ss"), S(<<98>>)>>), C("join", <<Id("ss"), S(<<45>>)>>), C("join", <<Id("sl"), S(<<45>>)>>) }
    [] g[1] = "law" ->
         LET s == g[2] IN
         { <<"Bin", "==", <<"Bin", "+", C("left", <<S(s), I(n)>>), C("right", <<S(s), <<"Bin", "-", C("len", <<S(s)>>), I(n)>>>>)>>, S(s)>> : n \in 0..Len(s) }
         \cup { C("startWith", <<S(s), C("left", <<S(s), I(n)>>)>>) : n \in 0..5 }
         \cup { C("endWith", <<S(s), C("right", <<S(s), I(n)>>)>>) : n \in 0..5 }
         \cup { <<"Bin", "==", <<"Bin", "==", C("find", <<S(s), S(t)>>), I(-1)>>, <<"Pre", "!", C("contains", <<S(s), S(t)>>)>>>> : t \in {<<>>, <<97>>, <<98,97>>, <<97,98>>} }
         \cup { <<"Bin", "==", C("len", <<C("lpad", <<S(s), S(<<120>>), I(n)>>)>>), I(n)>> : n \in 0..6 }
         \cup { C("endWith", <<C("lpad", <<S(s), S(<<120>>), I(n)>>), S(s)>>) : n \in Len(s)..6 }
         \cup { C("startWith", <<C("rpad", <<S(s), S(<<120>>), I(n)>>), S(s)>>) : n \in Len(s)..6 }
         \cup { <<"Bin", "==", C("mid", <<S(s), I(i), C("len", <<S(s)>>)>>), C("right", <<S(s), <<"Bin", "-", C("len", <<S(s)>>), I(i)>>>>)>> : i \in 0..Len(s) }

\* ---- the laws of the statement on the specification's own operators
StrArg(t, k) == t[3][k][3]                 \* k-th argument when it is a string literal
IsCallOf(f) == IsCase /\ tree[1] = "Call" /\ tree[2] = Id(f)
LawPrefixSuffix ==
  /\ (IsCallOf("startWith") /\ tree[3][1][1] = "Lit" /\ tree[3][2][1] = "Lit") =>
        (out[2] = Bool(TRUE) <=> \E n \in 0..Len(StrArg(tree, 1)) : LeftB(StrArg(tree, 1), n) = StrArg(tree, 2))
  /\ (IsCallOf("endWith") /\ tree[3][1][1] = "Lit" /\ tree[3][2][1] = "Lit") =>
        (out[2] = Bool(TRUE) <=> \E n \in 0..Len(StrArg(tree, 1)) : RightB(StrArg(tree, 1), n) = StrArg(tree, 2))
LawFind ==
  (IsCallOf("find") /\ tree[3][1][1] = "Lit" /\ tree[3][2][1] = "Lit") =>
     LET s == StrArg(tree, 1)  t == StrArg(tree, 2)  r == FindB(t, s) IN
     /\ (r = -1 <=> ~ContainsB(t, s))
     /\ (r >= 0 => OccursAt(t, s, r + 1) /\ \A p \in 1..r : ~OccursAt(t, s, p))
LawLeftRight ==
  \A s \in Strs2 : \A n \in 0..Len(s) : LeftB(s, n) \o RightB(s, Len(s) - n) = s
LawPad ==
  \A s \in Strs2 : \A n \in 0..6 :
     LET l == IF Len(s) > n THEN SubSeq(s, 1, n) ELSE Repeat(120, n - Len(s)) \o s IN
     Len(l) = n /\ (Len(s) <= n => IsSuffixB(s, l))
\* replacing every occurrence of a one-byte text leaves none behind unless the new text brings it in
LawReplace ==
  (IsCallOf("replace") /\ out[1] = "ok" /\ Len(StrArg(tree, 2)) = 1) =>
     (~ContainsB(StrArg(tree, 2), StrArg(tree, 3)) => ~ContainsB(StrArg(tree, 2), out[2][2]))
=============================================================================
