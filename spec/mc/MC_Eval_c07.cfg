SPECIFICATION Spec
CONSTANT Groups <- GroupsC07
CONSTANT GroupPrograms <- GroupProgramsC07
CONSTANT DataIds = {"D7", "D7b"}
INVARIANT Reparse
INVARIANT EvalTotal

INVARIANT Frame
CHECK_DEADLOCK FALSE
