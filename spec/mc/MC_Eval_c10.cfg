SPECIFICATION Spec
CONSTANT Groups <- GroupsC10
CONSTANT GroupPrograms <- GroupProgramsC10
CONSTANT DataIds = {"D10", "D10min"}
INVARIANT Reparse
INVARIANT EvalTotal

INVARIANT Frame
INVARIANT Sufficiency
CHECK_DEADLOCK FALSE
