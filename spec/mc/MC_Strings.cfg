SPECIFICATION Spec
CONSTANT K = 2
INVARIANT RoundTrip
CHECK_DEADLOCK FALSE
