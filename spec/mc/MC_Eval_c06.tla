---------------------------- MODULE MC_Eval_c06 ----------------------------
(* Program family of C06 for MC_EvalBase: one notion of truthiness *)
EXTENDS MC_EvalBase

\* ---- C06: one notion of truthiness
CondExprs == { KwL("null"), KwL("true"), KwL("false"), N(0), N(1), ND(FALSE, <<5>>, -1), ND(FALSE, <<1>>, -400), ND(FALSE, <<1>>, 400), P(<<"Bin", "*", ND(FALSE, <<1>>, -200), ND(FALSE, <<1>>, -200)>>), S(<<>>), S(<<48>>), S(<<97>>), S(<<32>>), S(<<9,10>>), S(<<194,160>>), S(<<227,128,128>>),
               <<"Arr", <<>>>>, <<"Arr", <<N(0)>>>>,
               Id("nan"), Id("pinf"), Id("ninf"), Id("negzero"), Id("zerof"), Id("int0"), Id("int5"), Id("s0"), Id("sa"),
               Id("m"), Id("mt"), Id("sl"), Id("np"), Id("nl"), Id("rec"), Id("undefined"), Id("bt"), Id("bf"), Id("t0"), Id("t1"), Id("st"), Id("ss0"),
               SelE(Id("tm"), "z"), SelE(Id("tm"), "o"), SelE(Id("m"), "missing"),
               <<"Pre", "+", S(<<48>>)>>, <<"Pre", "-", S(<<97,98,99>>)>>, <<"Pre", "+", Id("s0")>>, <<"Pre", "-", Id("sa")>>, <<"Pre", "+", S(<<55>>)>> }      \* + / - applied to strings: a number or NaN
BranchExprs == { N(1), N(2), S(<<98>>), KwL("null"), KwL("false"), Asg("$x", N(7)), Call1("rec", N(1)), Call1("rec", N(2)), Id("m") }
BranchExprsB == { N(1), N(2), S(<<98>>), KwL("null"), KwL("false"), P(Asg("$x", N(7))), Call1("rec", N(1)), Id("m"), N(0) }
SmallConds == { KwL("null"), N(0), N(1), S(<<>>), S(<<97>>), Id("nan"), Id("m"), Id("np") }
SmallBranches == { N(1), Asg("$x", N(7)), Call1("rec", N(2)), KwL("null") }

GroupsC06 == { <<"pre", c>> : c \in CondExprs } \cup { <<"cond", c>> : c \in CondExprs } \cup { <<"bin", c>> : c \in CondExprs }
             \cup { <<"nest", c>> : c \in SmallConds } \cup { <<"chain", c>> : c \in SmallConds }
GroupProgramsC06(g) ==
  LET c == g[2] IN
  CASE g[1] = "pre" -> { <<"Pre", op, c>> : op \in {"!!", "!"} }
                       \cup { Call1("rec", <<"Pre", "!!", c>>), <<"Arr", << <<"Pre", "!!", c>>, <<"Pre", "!", c>> >>>>, <<"Call", Id("recs"), <<N(1), <<"Pre", "!!", c>>>>, FALSE>> }      \* as list elements and arguments
    [] g[1] = "cond" -> { <<"Cond", c, a, b>> : a \in BranchExprs, b \in BranchExprs }
    [] g[1] = "bin" -> { <<"Bin", op, c, a>> : op \in {"&&", "||", "??"}, a \in BranchExprsB }
    [] g[1] = "nest" ->
         { <<"Cond", c, P(<<"Cond", c2, a, b>>), e>> : c2 \in SmallConds, a \in SmallBranches, b \in SmallBranches, e \in SmallBranches }
         \cup { <<"Cond", c, e, <<"Cond", c2, a, b>>>> : c2 \in SmallConds, a \in SmallBranches, b \in SmallBranches, e \in SmallBranches }
    [] g[1] = "chain" ->
         { <<"Bin", op1, <<"Bin", op2, c, c2>>, a>> : op1 \in {"||", "??"}, op2 \in {"||", "??"}, c2 \in SmallConds, a \in {N(1), Call1("rec", N(2))} }
         \cup { <<"Bin", "||", <<"Bin", "&&", c, c2>>, a>> : c2 \in SmallConds, a \in {N(1), Call1("rec", N(2))} }

\* C06 at the level of the specification: the falsy values are exactly null, false, zero, NaN, ''
FalsyExactly ==
  (IsCase /\ tree[1] = "Pre" /\ tree[2] = "!!" /\ out[1] = "ok") =>
     LET c == Eval(tree[3], [this |-> NormMap(data), log |-> <<>>])[2] IN
     out[2] = Bool(~(c[1] = "null" \/ c = Bool(FALSE) \/ c = <<"nan">> \/ c = Str(<<>>) \/ (c[1] = "num" /\ c[3] = <<>>)))
\* a conditional's result is its selected branch's, evaluated in the state after the condition
OnlySelectedBranch ==
  (IsCase /\ tree[1] = "Cond") =>
     LET st0 == [this |-> NormMap(data), log |-> <<>>]
         c == Eval(tree[2], st0) IN
     c[1] = "ok" => out = Eval(IF Truthy(c[2]) THEN tree[3] ELSE tree[4], c[3])
=============================================================================
