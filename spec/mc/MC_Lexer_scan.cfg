SPECIFICATION Spec
CONSTANT K = 4
CONSTANT Units <- UnitsScan
CONSTANT Prefix <- NoBytes
CONSTANT Suffix <- NoBytes
INVARIANT LexTiling
INVARIANT LexLongest
INVARIANT LexProgress
INVARIANT ParseTotal
INVARIANT GrammarSoundOnLexed
CHECK_DEADLOCK FALSE
