SPECIFICATION Spec
CONSTANT Groups <- GroupsC18
CONSTANT GroupPrograms <- GroupProgramsC18
CONSTANT DataIds = {"D3"}
INVARIANT Reparse
INVARIANT EvalTotal
INVARIANT NamesSay
CHECK_DEADLOCK FALSE
