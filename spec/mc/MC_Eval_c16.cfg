SPECIFICATION Spec
CONSTANT Groups <- GroupsC16
CONSTANT GroupPrograms <- GroupProgramsC16
CONSTANT DataIds = {"D16"}
INVARIANT Reparse
INVARIANT EvalTotal

INVARIANT Frame
CHECK_DEADLOCK FALSE
