SPECIFICATION Spec
CONSTANT K = 5
CONSTANT Units <- UnitsOps
CONSTANT Prefix <- NoBytes
CONSTANT Suffix <- NoBytes
INVARIANT LexTiling
INVARIANT LexLongest
INVARIANT LexProgress
INVARIANT ParseTotal
INVARIANT GrammarSoundOnLexed
CHECK_DEADLOCK FALSE
