SPECIFICATION Spec
CONSTANT Workloads <- W2
INVARIANT SeqEquivalent
INVARIANT NoInterference
PROPERTY SharedReadOnly
CHECK_DEADLOCK FALSE
