----------------------------- MODULE MC_Purity -----------------------------
(* C08: parsing is a function of the text, evaluation in a fresh runner a    *)
(* function of (tree, data), field analysis a function of the tree; none of  *)
(* them changes a tree.  The model has no variable through which one         *)
(* operation could influence another: every history over                     *)
(*   parse(i)  eval(i, j)  fields(i)        (formula i, data map j)          *)
(* is enumerated up to length N and each step carries the result the         *)
(* specification assigns to that operation alone.  The driver executes the   *)
(* history in one process, re-using the trees it parsed earlier in the same  *)
(* history, and dumps every tree before and after each evaluation.           *)
EXTENDS FEval, FData, FFields, TLC
CONSTANT N

Tk(k, v) == <<k, v, FALSE>>
O(k) == <<k, k, FALSE>>
Num1 == <<FALSE, <<1>>, 0>>
Big34 == <<FALSE, <<1>>, 33>>
\* formulas as token sequences (the driver renders them); the last two are rejected by the parser
Texts == <<
  << Tk("Id", "x"), O("+"), Tk("Num", Num1) >>,                                              \* x + 1
  << Tk("Id", "$a"), O("="), Tk("Id", "x"), O(","), Tk("Id", "$a"), O("*"), Tk("Id", "$a") >>, \* $a = x, $a * $a
  << Tk("Id", "y"), O("."), Tk("Id", "k"), O("?"), Tk("Str", <<97>>), O(":"), Tk("Id", "fail"), O("("), Tk("Num", Num1), O(")") >>,  \* y.k ? 'a' : fail(1)
  << Tk("Id", "max"), O("("), Tk("Id", "x"), O(","), Tk("Num", Num1), O(")") >>,            \* max(x, 1)
  << Tk("Id", "x"), O("+") >>,                                                              \* x +      (rejected)
  << O("["), Tk("Id", "x"), O(","), Tk("Id", "undefined"), O("]") >>,                       \* [x, undefined]
  << O("("), Tk("Num", Big34), O("+"), Tk("Num", <<FALSE, <<5>>, -1>>), O(")"), O("-"), Tk("Num", Big34) >>,   \* (10^33 + 0.5) - 10^33 : a tie at the 34th digit
  << Tk("Id", "round"), O("("), Tk("Id", "x"), O(")") >>,                                   \* round(x)
  << O("("), Tk("Id", "y"), O(")"), O("."), Tk("Id", "k") >>,                               \* (y).k  : the analysis refuses it
  << Tk("Id", "y"), O("."), Tk("Id", "Name") >>                                             \* y.Name : over Go structs (data maps 4 and 5)
>>
Datas == << [x |-> <<"int", 2>>, y |-> <<"map", [k |-> <<"bool", TRUE>>]>>, fail |-> <<"func", "fail">>, crec |-> <<"func", "crec">>],
            [x |-> <<"dec", FALSE, <<2,5>>, -1>>, y |-> <<"map", [k |-> <<"int", 0>>]>>, fail |-> <<"func", "fail">>, crec |-> <<"func", "crec">>, t0 |-> <<"time", -719162, 0, 0>>],
            [y |-> <<"nil">>, fail |-> <<"func", "fail">>, crec |-> <<"func", "crec">>],
            \* two Go struct types with the same printed name and different layouts: what one evaluation learns about
            \* a type must not reach the other
            [y |-> <<"rowA">>], [y |-> <<"rowB">>] >>
StructDatas == {4, 5}
StructTexts == {10}

ParseOf(i) == ParseTokens(Texts[i])
EvalOf(i, j) == LET p == ParseOf(i) IN
                IF p[1] # "OK" THEN <<"noparse">>
                ELSE LET o == Outcome(p[2], [this |-> NormMap(Datas[j]), log |-> <<>>]) IN
                     IF o[1] = "ok" THEN <<"ok", o[2], o[3].log>> ELSE IF o[1] = "err" THEN <<"err", o[2].log>> ELSE o
FieldsOf(i) == LET p == ParseOf(i) IN IF p[1] # "OK" THEN <<"noparse">> ELSE <<Fields(p[2]), FieldsNotLocal(p[2])>>

VARIABLE hist
Ops == { <<"parse", i>> : i \in 1..Len(Texts) } \cup { <<"eval", i, j>> : i \in 1..Len(Texts) \ StructTexts, j \in 1..Len(Datas) \ StructDatas }
       \cup { <<"eval", i, j>> : i \in StructTexts, j \in 1..Len(Datas) }
       \cup { <<"fields", i>> : i \in 1..Len(Texts) }
Res(op) == CASE op[1] = "parse" -> ParseOf(op[2]) [] op[1] = "eval" -> EvalOf(op[2], op[3]) [] op[1] = "fields" -> FieldsOf(op[2])

Init == hist = <<>>
Next == Len(hist) < N /\ \E op \in Ops : hist' = Append(hist, [op |-> op, res |-> Res(op)])
Spec == Init /\ [][Next]_hist

\* the property on the model: the result of an operation does not depend on its position in the history
Functional == \A a \in 1..Len(hist), b \in 1..Len(hist) : hist[a].op = hist[b].op => hist[a].res = hist[b].res
=============================================================================
