SPECIFICATION Spec
CONSTANT Groups <- GroupsC17
CONSTANT GroupPrograms <- GroupProgramsC17
CONSTANT DataIds = {"D3"}
INVARIANT Reparse
INVARIANT EvalTotal
INVARIANT LawPrefixSuffix
INVARIANT LawFind
INVARIANT LawLeftRight
INVARIANT LawPad
INVARIANT LawReplace
CHECK_DEADLOCK FALSE
