--------------------------- MODULE MC_NearMiss ---------------------------
(* Near misses of canonical sentences (C02): for each base sentence - one   *)
(* per construction of the grammar, with operators in every arm - EVERY      *)
(* sequence obtained by deleting one token, inserting one token of the       *)
(* alphabet at any place, replacing one token by any token of the alphabet,  *)
(* or swapping two neighbours.  The specification's parser decides which of  *)
(* them are derivable (and what their tree is); the real parser must agree.  *)
(* This is where "anything not derivable is rejected" is checked at lengths  *)
(* (7-14 tokens) the exhaustive sequence models do not reach, e.g.           *)
(* a ? b , c : d  (a comma inside the true arm).                             *)
EXTENDS FGrammar, TLC

I(n) == <<"Id", n>>
N1 == <<"Lit", "Num", <<FALSE, <<1>>, 0>>>>
B(op, l, r) == <<"Bin", op, l, r>>
Bases == <<
  <<"Cond", I("a"), B("+", I("b"), I("c")), B("*", I("d"), I("e"))>>,
  <<"Cond", I("a"), I("b"), <<"Cond", I("c"), I("d"), I("e")>>>>,
  <<"Cond", B("||", I("a"), I("b")), <<"Paren", B(",", I("c"), I("d"))>>, <<"Paren", B("=", I("$x"), I("e"))>>>>,
  <<"Call", I("f"), <<I("a"), B("+", I("b"), I("c")), I("d")>>, FALSE>>,
  <<"Call", I("f"), <<I("a"), I("b")>>, TRUE>>,
  <<"Call", <<"Sel", I("a"), "g", FALSE>>, <<>>, FALSE>>,
  <<"Arr", <<I("a"), <<"Cond", I("b"), I("c"), I("d")>>, <<"Arr", <<>>>>>>>>,
  <<"Sel", <<"Call", <<"Sel", <<"Sel", I("a"), "b", FALSE>>, "c", TRUE>>, <<I("d")>>, FALSE>>, "e", FALSE>>,
  B(",", B("=", I("$x"), B("+", I("a"), I("b"))), I("c")),
  B("=", I("$x"), B("=", I("$y"), <<"Cond", I("c"), I("d"), I("e")>>)),
  B("+", <<"Typeof", <<"Sel", I("a"), "b", FALSE>>>>, <<"Pre", "!", I("c")>>),
  B("||", B("??", <<"Paren", B(",", I("a"), I("b"))>>, I("c")), B("&&", I("d"), I("e"))),
  B("==", B("<", B("*", <<"Pre", "-", I("a")>>, <<"Pre", "!!", I("b")>>), I("c")), N1),
  B("|", B("&", I("a"), I("b")), B("^", <<"Pre", "~", I("c")>>, <<"Lit", "Kw", "this">>)),
  B("=", <<"Sel", I("a"), "b", FALSE>>, B("*", I("c"), N1)),
  <<"Cond", I("a"), I("b"), B("=", I("$x"), I("d"))>>,
  B(",", B(",", I("a"), I("b")), I("c"))
>>
TokS(t) == [i \in 1..Len(Unparse(t)) |-> <<Unparse(t)[i][1], Unparse(t)[i][2], FALSE>>]

T3m(k, v) == <<k, v, FALSE>>
Alphabet ==
  { T3m("Num", <<FALSE, <<1>>, 0>>), T3m("Id", "a"), T3m("typeof", "typeof"), T3m("Kw", "null"), T3m("Str", <<115>>) }
  \cup { T3m(k, k) : k \in {"(", ")", "[", "]", ".", "!.", "...", ",", "?", ":", "=", "!", "!!", "~", "-", "+", "*", "<", "==", "&", "&&", "||", "??"} }
  \cup { <<".", ".", TRUE>>, <<"(", "(", TRUE>>, <<"Id", "a", TRUE>> }

Mutants(t) ==
  LET L == Len(t) IN
  { SubSeq(t, 1, i - 1) \o SubSeq(t, i + 1, L) : i \in 1..L }
  \cup { SubSeq(t, 1, i - 1) \o <<x>> \o SubSeq(t, i, L) : i \in 1..(L + 1), x \in Alphabet }
  \cup { SubSeq(t, 1, i - 1) \o <<x>> \o SubSeq(t, i + 1, L) : i \in 1..L, x \in Alphabet }
  \cup { SubSeq(t, 1, i - 1) \o <<t[i + 1], t[i]>> \o SubSeq(t, i + 2, L) : i \in 1..(L - 1) }

VARIABLES phase, s, e, pin, spans
vars == <<phase, s, e, pin, spans>>
Init == phase = "seed" /\ s = <<>> /\ e = <<"REJECT">> /\ pin = FALSE /\ spans = <<>>
Next ==
  \/ /\ phase = "seed"
     /\ \E b \in 1..Len(Bases) :
          /\ phase' = "base" /\ s' = TokS(Bases[b]) /\ e' = ParseTokens(TokS(Bases[b])) /\ pin' = TRUE
          /\ spans' = Spans(Bases[b], 1, <<>>)
  \/ /\ phase = "base"
     /\ \E m \in Mutants(s) :
          /\ phase' = "mutant" /\ s' = m /\ e' = ParseTokens(m) /\ pin' = TRUE /\ spans' = <<>>
Spec == Init /\ [][Next]_vars

\* every base is a sentence and reads back as its tree; a mutant that is still a sentence reads back as a well-formed tree
BasesAreSentences == phase = "base" => \E b \in 1..Len(Bases) : e = <<"OK", Bases[b]>>
MutantsJudged == phase = "mutant" => (e[1] = "REJECT" \/ (e[1] = "OK" /\ WF(e[2]) = TRUE))
=============================================================================
