---------------------------- MODULE MC_Grammar ----------------------------
(* Bounded-exhaustive enumeration of token sequences (C01, C02).          *)
(* Every state is one token sequence s together with the specification's  *)
(* parse result e; the invariant is the soundness theorem of FGrammar.    *)
(* The dump of all states is replayed into the real parser.               *)
EXTENDS FGrammar, TLC
CONSTANTS K, Alphabet

T3(k, v) == <<k, v, FALSE>>
OpT(k) == <<k, k, FALSE>>

\* one representative per parser-equivalence class (DESIGN.md appendix A) ...
ClassAlphabet ==
  { T3("Num", <<FALSE, <<1>>, 0>>), T3("Kw", "true"), T3("Id", "a"), T3("typeof", "typeof"), T3("Unknown", "@") }
  \cup { OpT(k) : k \in {"(", ")", "[", "]", ".", "!.", "...", ",", "?", ":", "=",
                         "!", "!!", "-", "*", "<", "==", "&", "^", "|", "&&", "||"} }
  \cup { <<".", ".", TRUE>>, <<"!.", "!.", TRUE>>, <<"(", "(", TRUE>>, <<"Id", "a", TRUE>> }

\* ... and every token kind the scanner can produce
FullAlphabet ==
  { T3("Num", <<FALSE, <<1>>, 0>>), T3("Str", <<115>>), T3("Id", "a"), T3("typeof", "typeof"), T3("Unknown", "@") }
  \cup { T3("Kw", w) : w \in {"true", "false", "null", "this", "ctx"} }
  \cup { OpT(k) : k \in {"(", ")", "[", "]", ".", "!.", "...", ",", "?", ":", "=",
                         "!", "!!", "~", "+", "-", "*", "/", "%", "<", ">", "<=", ">=",
                         "==", "!=", "===", "!==", "&", "^", "|", "&&", "||", "??"} }
  \cup { <<".", ".", TRUE>>, <<"!.", "!.", TRUE>>, <<"(", "(", TRUE>>, <<"Id", "a", TRUE>> }

\* postfix chains: names, member access, calls and commas with and without line breaks (deeper than
\* the class alphabet reaches)
PostfixAlphabet ==
  { T3("Id", "a"), OpT("."), OpT("!."), OpT("("), OpT(")"), <<".", ".", TRUE>>, <<"(", "(", TRUE>> }

\* corners the property leaves open: keyword as member name, f(...) with nothing
\* before the spread
Pinned(s) == ~ \E i \in 1..Len(s) :
                 \/ TK(s, i) \in {".", "!."} /\ TK(s, i + 1) \in {"Kw", "typeof"}
                 \/ TK(s, i) = "(" /\ TK(s, i + 1) = "..."

VARIABLES s, e, pin, spans
vars == <<s, e, pin, spans>>

\* token spans <<path, kind, first, last>> of every node of an accepted tree (C15)
SpansOf(p) == IF p[1] = "OK" THEN Spans(p[2], 1, <<>>) ELSE <<>>

Init == s = <<>> /\ e = ParseTokens(<<>>) /\ pin = TRUE /\ spans = <<>>
Next == /\ Len(s) < K
        /\ \E t \in Alphabet : s' = Append(s, t)
        /\ e' = ParseTokens(s')
        /\ pin' = Pinned(s')
        /\ spans' = SpansOf(e')
Spec == Init /\ [][Next]_vars

GrammarSound == Sound(s, e)
\* totality of the specification's own parser: a tree or a rejection
ParseTotal == e[1] \in {"OK", "REJECT"}
\* the empty formula is not a formula
EmptyRejected == (s = <<>>) => e[1] = "REJECT"
\* line-break flags matter only in front of "." "!." "(" : clearing the flag of any
\* other token does not change the result
NewlineOnlyMatters ==
  \A i \in 1..Len(s) :
     (s[i][3] /\ s[i][1] \notin {".", "!.", "("}) =>
        ParseTokens([s EXCEPT ![i] = <<s[i][1], s[i][2], FALSE>>]) = e
\* C15 on the specification: ranges nest (a child's token span lies inside its parent's, siblings in
\* source order) and the tokens of every expression node parse on their own to that subtree
RECURSIVE SubAt(_, _)
SubAt(t, path) ==
  IF path = <<>> THEN t
  ELSE LET i == path[1]  rest == Tail(path) IN
       CASE t[1] = "Paren" -> SubAt(t[2], rest)
         [] t[1] = "Arr" -> SubAt(t[2][i], rest)
         [] t[1] = "Sel" -> SubAt(t[2], rest)
         [] t[1] = "Call" -> IF i = 0 THEN SubAt(t[2], rest) ELSE SubAt(t[3][i], rest)
         [] t[1] = "Pre" -> SubAt(t[3], rest)
         [] t[1] = "Typeof" -> SubAt(t[2], rest)
         [] t[1] = "Cond" -> SubAt(t[i + 1], rest)
         [] t[1] = "Bin" -> SubAt(t[i + 2], rest)
IsPrefixPath(a, b) == Len(a) <= Len(b) /\ SubSeq(b, 1, Len(a)) = a
RangesNest ==
  \A i \in 1..Len(spans), j \in 1..Len(spans) :
     (i # j /\ IsPrefixPath(spans[i][1], spans[j][1])) => (spans[i][3] <= spans[j][3] /\ spans[j][4] <= spans[i][4])
SubtextReparses ==
  \A i \in {j \in 1..Len(spans) : spans[j][2] # "Name"} :
     LET sub == [j \in 1..(spans[i][4] - spans[i][3] + 1) |-> <<s[spans[i][3] + j - 1][1], s[spans[i][3] + j - 1][2], FALSE>>] IN
     ParseTokens(sub) = <<"OK", SubAt(e[2], spans[i][1])>>
=============================================================================
