---------------------------- MODULE MC_Grammar ----------------------------
(* Bounded-exhaustive enumeration of token sequences (C01, C02).          *)
(* Every state is one token sequence s together with the specification's  *)
(* parse result e; the invariant is the soundness theorem of FGrammar.    *)
(* The dump of all states is replayed into the real parser.               *)
EXTENDS FGrammar, TLC
CONSTANTS K, Alphabet

T3(k, v) == <<k, v, FALSE>>
OpT(k) == <<k, k, FALSE>>

\* one representative per parser-equivalence class (DESIGN.md appendix A) ...
ClassAlphabet ==
  { T3("Num", <<FALSE, <<1>>, 0>>), T3("Kw", "true"), T3("Id", "a"), T3("typeof", "typeof"), T3("Unknown", "@") }
  \cup { OpT(k) : k \in {"(", ")", "[", "]", ".", "!.", "...", ",", "?", ":", "=",
                         "!", "!!", "-", "*", "<", "==", "&", "^", "|", "&&", "||"} }
  \cup { <<".", ".", TRUE>>, <<"!.", "!.", TRUE>>, <<"(", "(", TRUE>>, <<"Id", "a", TRUE>> }

\* ... and every token kind the scanner can produce
FullAlphabet ==
  { T3("Num", <<FALSE, <<1>>, 0>>), T3("Str", <<115>>), T3("Id", "a"), T3("typeof", "typeof"), T3("Unknown", "@") }
  \cup { T3("Kw", w) : w \in {"true", "false", "null", "this", "ctx"} }
  \cup { OpT(k) : k \in {"(", ")", "[", "]", ".", "!.", "...", ",", "?", ":", "=",
                         "!", "!!", "~", "+", "-", "*", "/", "%", "<", ">", "<=", ">=",
                         "==", "!=", "===", "!==", "&", "^", "|", "&&", "||", "??"} }
  \cup { <<".", ".", TRUE>>, <<"!.", "!.", TRUE>>, <<"(", "(", TRUE>>, <<"Id", "a", TRUE>> }

\* postfix chains: names, member access, calls and commas with and without line breaks (deeper than
\* the class alphabet reaches)
PostfixAlphabet ==
  { T3("Id", "a"), OpT("."), OpT("!."), OpT("("), OpT(")"), <<".", ".", TRUE>>, <<"(", "(", TRUE>> }

\* corners the property leaves open: keyword as member name, f(...) with nothing
\* before the spread
Pinned(s) == ~ \E i \in 1..Len(s) :
                 \/ TK(s, i) \in {".", "!."} /\ TK(s, i + 1) \in {"Kw", "typeof"}
                 \/ TK(s, i) = "(" /\ TK(s, i + 1) = "..."

VARIABLES s, e, pin
vars == <<s, e, pin>>

Init == s = <<>> /\ e = ParseTokens(<<>>) /\ pin = TRUE
Next == /\ Len(s) < K
        /\ \E t \in Alphabet : s' = Append(s, t)
        /\ e' = ParseTokens(s')
        /\ pin' = Pinned(s')
Spec == Init /\ [][Next]_vars

GrammarSound == Sound(s, e)
\* totality of the specification's own parser: a tree or a rejection
ParseTotal == e[1] \in {"OK", "REJECT"}
\* the empty formula is not a formula
EmptyRejected == (s = <<>>) => e[1] = "REJECT"
\* line-break flags matter only in front of "." "!." "(" : clearing the flag of any
\* other token does not change the result
NewlineOnlyMatters ==
  \A i \in 1..Len(s) :
     (s[i][3] /\ s[i][1] \notin {".", "!.", "("}) =>
        ParseTokens([s EXCEPT ![i] = <<s[i][1], s[i][2], FALSE>>]) = e
=============================================================================
