SPECIFICATION Spec
CONSTANT Groups <- GroupsC03
CONSTANT GroupPrograms <- GroupProgramsC03
CONSTANT DataIds = {"D3"}
INVARIANT Reparse
INVARIANT EvalTotal

INVARIANT Frame
CHECK_DEADLOCK FALSE
