SPECIFICATION Spec
INVARIANT NatLaws
INVARIANT DecLaws
CHECK_DEADLOCK FALSE
