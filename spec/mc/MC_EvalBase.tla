---------------------------- MODULE MC_EvalBase ----------------------------
(* One evaluation of one formula against one data map: every state is a     *)
(* (program, data) pair of a bounded-exhaustive family with the outcome     *)
(* FEval computes: value or error, the data map afterwards (locals bound),  *)
(* the host-call log.  The dump is replayed into the real parser +          *)
(* evaluator.  Program families are sets of trees (FGrammar form), selected *)
(* per configuration; only well-formed trees (WF) are kept, so Unparse      *)
(* spells each one with exactly the parentheses it contains.                *)
EXTENDS FEval, FData, FFields, TLC
CONSTANTS Groups, GroupPrograms(_), DataIds

\* ---- leaves
N(n) == <<"Lit", "Num", DInt(n)>>
ND(neg, digs, e) == <<"Lit", "Num", Canon(neg, digs, e)>>
S(bs) == <<"Lit", "Str", bs>>
KwL(w) == <<"Lit", "Kw", w>>
Id(n) == <<"Id", n>>
P(e) == <<"Paren", e>>
Asg(n, e) == <<"Bin", "=", Id(n), e>>
Call1(f, a) == <<"Call", Id(f), <<a>>, FALSE>>
SelE(e, k) == <<"Sel", e, k, FALSE>>
SelA(e, k) == <<"Sel", e, k, TRUE>>

\* ---- data maps (descriptions, FData)
T0 == <<"time", 0, 0, 0>>
D6 == [ nan |-> <<"f64nan">>, pinf |-> <<"f64inf", FALSE>>, ninf |-> <<"f64inf", TRUE>>,
        negzero |-> <<"f64", TRUE, <<>>, 0>>, zerof |-> <<"f64", FALSE, <<>>, 0>>, int0 |-> <<"int", 0>>,
        int5 |-> <<"int", 5>>, s0 |-> <<"str", <<>>>>, sa |-> <<"str", <<97>>>>,
        m |-> <<"map", [k |-> <<"int", 1>>]>>, mt |-> <<"map", <<>>>>,
        sl |-> <<"slice", <<>>>>, np |-> <<"nilptr">>, nl |-> <<"nil">>,
        rec |-> <<"func", "rec">>, tm |-> <<"tmapint", [z |-> 0, o |-> 1]>>,
        bt |-> <<"bool", TRUE>>, bf |-> <<"bool", FALSE>>,
        t0 |-> <<"time", -719162, 0, 0>>, t1 |-> <<"time", 0, 0, 0>>,            \* the zero time 0001-01-01T00:00:00Z and the Unix epoch: times are truthy
        st |-> <<"struct", [A |-> <<"int", 0>>, B |-> <<"nil">>, N |-> <<"nil">>, P |-> <<"nil">>], <<"c">>>>, ss0 |-> <<"strs", <<>>>> ]

\* C05: values in several spellings and Go kinds
D5 == [ int1 |-> <<"int", 1>>, f1 |-> <<"f64", FALSE, <<1>>, 0>>, f01 |-> <<"f64", FALSE, <<1>>, -1>>,
        i64 |-> <<"int64", FALSE, <<9,0,0,7,1,9,9,2,5,4,7,4,0,9,9,3>>>>, negzero |-> <<"f64", TRUE, <<>>, 0>>,
        s1 |-> <<"str", <<49>>>>, sa |-> <<"str", <<97>>>>, nl |-> <<"nil">>, np |-> <<"nilptr">>, bt |-> <<"bool", TRUE>>,
        i32 |-> <<"int32", -2>>, d3 |-> <<"dec", FALSE, <<3>>, -1>>, m5 |-> <<"map", [k |-> <<"int", 1>>]>>, t5 |-> <<"time", 19000, 0, 0>>,
        f19 |-> <<"f64", FALSE, <<1>>, 19>>, f12e18 |-> <<"f64", FALSE, <<1,2>>, 18>>, f63 |-> <<"f64", FALSE, <<9,2,2,3,3,7,2,0,3,6,8,5,4,7,7,6>>, 3>> ]          \* whole floats between 2^63 and 2^64
\* C16: shapes
\* (two integers no float64 holds: 2^62 + 1 nested, 2^53 + 1 at the top)
D16 == [ m |-> <<"map", [a |-> <<"map", [b |-> <<"map", [a |-> <<"int64", FALSE, <<4,6,1,1,6,8,6,0,1,8,4,2,7,3,8,7,9,0,5>>>>, z |-> <<"nil">>]>>, z |-> <<"int", 0>>, n |-> <<"nilptr">>]>>,
                         b |-> <<"str", <<120>>>>, z |-> <<"nil">>, len |-> <<"int", 3>>]>>,
         tm |-> <<"tmapint", [a |-> 5, z |-> 0]>>, ts |-> <<"tmapstr", [a |-> <<120>>, z |-> <<>>, true |-> <<116>>]>>,
         true |-> <<"int", 8>>, null |-> <<"int", 9>>, ra |-> <<"rowA">>, rb |-> <<"rowB">>, f63 |-> <<"f64", FALSE, <<9,2,2,3,3,7,2,0,3,6,8,5,4,7,7,6>>, 3>>, f19 |-> <<"f64", TRUE, <<1>>, 19>>,
         st |-> <<"struct", [A |-> <<"int", 4>>, B |-> <<"map", [a |-> <<"f64", FALSE, <<2,5>>, -1>>]>>, N |-> <<"nilptr">>, P |-> <<"str", <<112>>>>], <<"c">>>>,
         nm |-> <<"nilmap">>, ns |-> <<"nilslice">>,
         np |-> <<"nilptr">>, nl |-> <<"nil">>, s |-> <<"str", <<97>>>>, n |-> <<"int64", TRUE, <<9,0,0,7,1,9,9,2,5,4,7,4,0,9,9,3>>>>, a |-> <<"int32", 9>>,
         len |-> <<"int", 99>>, abs |-> <<"str", <<104>>>>, bt |-> <<"bool", FALSE>>, sl |-> <<"slice", <<<<"int", 1>>>>>>,
         tt |-> <<"time", 0, 0, 0>> ]
\* C07: locals, caller-owned numbers, recorder
D7 == [ x |-> <<"dec", FALSE, <<5>>, 0>>, y |-> <<"map", [k |-> <<"dec", TRUE, <<2,5>>, -1>>, l |-> <<"slice", <<<<"int", 1>>, <<"int", 2>>>>>>]>>,
        n |-> <<"int", 3>>, rec |-> <<"func", "rec">>, recs |-> <<"func", "recs">>, fail |-> <<"func", "fail">>,
        rows |-> <<"slice", << <<"map", [name |-> <<"str", <<97>>>>, note |-> <<"nil">>]>>, <<"map", [name |-> <<"str", <<98>>>>, note |-> <<"int", 1>>]>> >>>> ]
D7b == [ x |-> <<"int", 1>>, rec |-> <<"func", "rec">>, recs |-> <<"func", "recs">>, fail |-> <<"func", "fail">> ] @@ ("$a" :> <<"dec", FALSE, <<9>>, 0>>)
\* C03: one entry per supported kind, incl. the odd ones
D3 == [ i |-> <<"int", 2>>, f |-> <<"f64", FALSE, <<1,5>>, -1>>, s |-> <<"str", <<97,98>>>>, b |-> <<"bool", TRUE>>, nl |-> <<"nil">>,
        np |-> <<"nilptr">>, m |-> <<"map", [k |-> <<"int", 1>>]>>, tm |-> <<"tmapint", [z |-> 0]>>, im |-> <<"imap">>,
        st |-> <<"struct", [A |-> <<"int", 1>>, B |-> <<"nil">>, N |-> <<"nil">>, P |-> <<"nil">>], <<"c">>>>, ps |-> <<"ptrstruct", [A |-> <<"int", 1>>, B |-> <<"nil">>, N |-> <<"nil">>, P |-> <<"nil">>], <<"c">>>>,
        sl |-> <<"slice", <<<<"int", 1>>, <<"str", <<98>>>>>>>>, ss |-> <<"strs", <<<<97>>, <<98>>>>>>, u |-> <<"uint", 3>>,
        t |-> <<"time", 0, 0, 0>>, rec |-> <<"func", "rec">>, fail |-> <<"func", "fail">>, failv |-> <<"func", "failv">>, add2 |-> <<"func", "add2">>, cat |-> <<"func", "cat">>,
        nan |-> <<"f64nan">>, inf |-> <<"f64inf", FALSE>>, ninf |-> <<"f64inf", TRUE>>, nb |-> <<"nilbig">>,
        sc6 |-> <<"dec", FALSE, <<6,0,0>>, -2>>, sc1e3 |-> <<"dec", FALSE, <<1>>, 3>>,       \* whole numbers held with a scale: 6.00 and 1e3
        crec |-> <<"func", "crec">>, cstr |-> <<"func", "cstr">> ]
\* C10: full map and its restrictions are built by the driver
D10 == [ a |-> <<"map", [b |-> <<"map", [c |-> <<"int", 1>>]>>, k |-> <<"int", 2>>]>>, b |-> <<"int", 3>>, c |-> <<"str", <<99>>>>,
         f |-> <<"func", "rec">>, g |-> <<"func", "id">>, e |-> <<"int", 0>> ] @@ ("p$q" :> <<"int", 8>>)

DataDesc(i) == CASE i = "D6" -> D6 [] i = "D5" -> D5 [] i = "D16" -> D16 [] i = "D7" -> D7 [] i = "D7b" -> D7b
                 [] i = "D3" -> D3 [] i = "D10" -> D10

VARIABLES tree, toks, d, data, out, fields
vars == <<tree, toks, d, data, out, fields>>

Tok3(s) == [i \in 1..Len(s) |-> <<s[i][1], s[i][2], FALSE>>]

\* the referenced-field analysis of the program (C10)
FieldsOf(p) == <<Fields(p), FieldsNotLocal(p), Calls(p), UsesThis(p)>>

\* "D10min": the data map restricted to the top-level names of the reported fields and of the
\* called names (C10, sufficiency); every other id is a fixed map
TopNames(p) == LET f == Fields(p) IN
               { q[1] : q \in (IF f[1] = "ok" THEN f[3] ELSE {}) \cup Calls(p) }
DataFor(i, p) == IF i = "D10min" THEN [k \in (DOMAIN D10) \cap TopNames(p) |-> D10[k]] ELSE DataDesc(i)

\* Enumeration in two levels so that TLC's workers share the work: the seed state has one
\* successor per group, each group state one successor per (program of the group, data map).
NoCase == /\ toks' = <<>> /\ d' = "" /\ data' = <<>> /\ out' = <<"none">> /\ fields' = <<>>
Init == /\ tree = <<"seed">> /\ toks = <<>> /\ d = "" /\ data = <<>> /\ out = <<"none">> /\ fields = <<>>
\* laws that hold whatever the cells are: [a == b, a != b] and [a === b, a !== b] evaluate to a pair of opposite booleans
\* (or to an error) also where the specification does not pin the comparison itself
NegPair(x, y) == /\ x[1] = "Bin" /\ y[1] = "Bin" /\ x[3] = y[3] /\ x[4] = y[4]
                 /\ <<x[2], y[2]>> \in {<<"==", "!=">>, <<"===", "!==">>}
NegLaw == <<"oneof", <<"ok", <<"arr", <<Bool(TRUE), Bool(FALSE)>>>>, <<"ANY">>>>, <<"ok", <<"arr", <<Bool(FALSE), Bool(TRUE)>>>>, <<"ANY">>>>,
            <<"err", <<"ANY">>>>>>
\* "x!.k is an error exactly when x is null": asserting access on a number, string or boolean is no error (a time is a Go struct: missing fields are errors),
\* whatever it yields
AssertOnScalar(p, st) == /\ p[1] = "Sel" /\ p[4] = TRUE
                         /\ LET r == Eval(p[2], st) IN r[1] = "ok" /\ r[2][1] \in {"num", "str", "bool", "nan", "inf"}
LawOut2(p, o, st) == IF o[1] = "unspec" /\ AssertOnScalar(p, st) THEN <<"ok", <<"ANY">>, Eval(p[2], st)[3]>> ELSE o
LawOut(p, o) == IF o[1] = "unspec" /\ p[1] = "Arr" /\ Len(p[2]) = 2 /\ NegPair(p[2][1], p[2][2]) THEN NegLaw ELSE o

Next == \/ /\ tree = <<"seed">>
           /\ \E g \in Groups : tree' = <<"group", g>>
           /\ NoCase
        \/ /\ tree[1] = "group"
           /\ \E p \in GroupPrograms(tree[2]), i \in DataIds :
                /\ WF(p) = TRUE          \* "= TRUE": evaluated as an expression, not decomposed as an action
                /\ tree' = p
                /\ d' = i
                /\ toks' = Tok3(Unparse(p))
                /\ data' = DataFor(i, p)
                /\ out' = LET st0 == [this |-> NormMap(DataFor(i, p)), log |-> <<>>] IN LawOut2(p, LawOut(p, Outcome(p, st0)), st0)
                /\ fields' = FieldsOf(p)
IsCase == tree[1] \notin {"seed", "group"}
Spec == Init /\ [][Next]_vars

\* the specification's own parser reads the spelling back as the same tree
Reparse == IsCase => ParseTokens(toks) = <<"OK", tree>>
EvalTotal == IsCase => out[1] \in {"ok", "err", "unspec", "oneof"}     \* "oneof": a law (LawOut) over an unpinned cell

\* C07 frame condition on the specification: evaluation only ever adds or changes "$" entries
Frame ==
  (IsCase /\ out[1] \in {"ok", "err"}) =>
     LET st1 == IF out[1] = "ok" THEN out[3] ELSE out[2]
         m0 == NormMap(data) IN
     /\ \A k \in DOMAIN m0 : k \notin LocalNames => (k \in DOMAIN st1.this /\ st1.this[k] = m0[k])
     /\ \A k \in DOMAIN st1.this : k \in DOMAIN m0 \/ k \in LocalNames
\* C10 sufficiency on the specification: for a formula the analysis accepts and that does not use
\* `this`, the restricted data map gives the same value / error and the same host calls and locals
Sufficiency ==
  (IsCase /\ d = "D10min" /\ Fields(tree)[1] = "ok" /\ ~UsesThis(tree) /\ ~(out[1] = "ok" /\ out[2] = <<"ANY">>)) =>       \* (not where only a law is pinned)
     LET full == Eval(tree, [this |-> NormMap(D10), log |-> <<>>])
         Loc(o) == IF o[1] = "unspec" THEN <<>> ELSE
                   LET st1 == IF o[1] = "ok" THEN o[3] ELSE o[2] IN
                   <<st1.log, [k \in (DOMAIN st1.this) \cap LocalNames |-> st1.this[k]]>>
     IN /\ full[1] = out[1]
        /\ (full[1] = "ok" => full[2] = out[2])
        /\ Loc(full) = Loc(out)
=============================================================================
