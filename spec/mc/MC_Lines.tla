------------------------------ MODULE MC_Lines ------------------------------
(* Every text of up to K units over {a, LF, CR, U+2028, U+2029, U+0085} with *)
(* its line-start table and the (line, column) of every offset (C15).       *)
EXTENDS FLines, TLC
CONSTANT K
Units == << <<97>>, <<10>>, <<13>>, <<226,128,168>>, <<226,128,169>>, <<194,133>> >>

VARIABLES u, text, starts, lc
vars == <<u, text, starts, lc>>
RECURSIVE Cat(_, _)
Cat(s, i) == IF i > Len(s) THEN <<>> ELSE Units[s[i]] \o Cat(s, i + 1)
LCs(t) == [o \in 1..(Len(t) + 1) |-> LineCol(t, o - 1)]      \* entry o is offset o-1

Init == u = <<>> /\ text = <<>> /\ starts = LineStarts(<<>>) /\ lc = LCs(<<>>)
Next == /\ Len(u) < K
        /\ \E i \in 1..Len(Units) : u' = Append(u, i) /\ text' = Cat(u', 1)
                                    /\ starts' = LineStarts(text') /\ lc' = LCs(text')
Spec == Init /\ [][Next]_vars

\* sanity of the specification's own table
StartsIncrease == \A i \in 1..(Len(starts) - 1) : starts[i] < starts[i + 1]
StartsInText == \A i \in 1..Len(starts) : starts[i] >= 0 /\ starts[i] <= Len(text)
LineColMonotone == \A o \in 1..Len(text) : lc[o][1] < lc[o + 1][1] \/ (lc[o][1] = lc[o + 1][1] /\ lc[o][2] < lc[o + 1][2])
\* every offset is found again from its line and column
LineColInverse == \A o \in 1..(Len(text) + 1) : starts[lc[o][1] + 1] + lc[o][2] = o - 1
=============================================================================
