------------------------- MODULE MC_GrammarRandom -------------------------
(* Random grammar-directed programs with minimal parenthesisation (C02, C15). *)
(* One random walk: every step grows the current tree by a randomly chosen    *)
(* construction (TLC's RandomElement, seeded), inserting parentheses exactly   *)
(* where the grammar needs them; when the tree gets large the walk restarts    *)
(* from a leaf.  Invariant Complete: the specification's parser reads the      *)
(* spelling of every generated tree back as that tree (completeness and        *)
(* unambiguity on deep trees).  The walk is replayed into the real parser.     *)
EXTENDS FGrammar, TLC
CONSTANT Steps, MaxTokens, Mutate      \* Mutate: every other step is a one-token mutation of the current spelling

Leaves == { <<"Id", "a">>, <<"Id", "b">>, <<"Id", "$x">>, <<"Lit", "Num", <<FALSE, <<1>>, 0>>>>, <<"Lit", "Num", <<FALSE, <<2,5>>, -1>>>>,
            <<"Lit", "Str", <<115>>>>, <<"Lit", "Kw", "true">>, <<"Lit", "Kw", "null">>, <<"Lit", "Kw", "this">>, <<"Arr", <<>>>> }
AllOps == BinOps \cup {"=", ","}
\* parentheses exactly where the child binds looser than its position allows
PIf(c, ok) == IF ok THEN c ELSE <<"Paren", c>>
MkBin(op, l, r) ==
  CASE op = "," -> <<"Bin", ",", l, PIf(r, Level(r) >= 1)>>
    [] op = "=" -> <<"Bin", "=", PIf(l, Level(l) >= 3), PIf(r, Level(r) >= 1)>>
    [] OTHER -> <<"Bin", op, PIf(l, Level(l) >= 2 + Prec(op)), PIf(r, Level(r) > 2 + Prec(op))>>
MkPre(op, t) == <<"Pre", op, PIf(t, Level(t) >= 20)>>
MkTypeof(t) == <<"Typeof", PIf(t, Level(t) >= 20)>>
MkCond(c, a, b) == <<"Cond", PIf(c, Level(c) >= 3), PIf(a, Level(a) >= 1), PIf(b, Level(b) >= 1)>>
MkSel(t, n, as) == <<"Sel", PIf(t, Level(t) = 21), n, as>>
MkCall(f, args, sp) == <<"Call", PIf(f, Level(f) = 21), [i \in 1..Len(args) |-> PIf(args[i], Level(args[i]) >= 1)], sp>>
MkArr(es) == <<"Arr", [i \in 1..Len(es) |-> PIf(es[i], Level(es[i]) >= 1)]>>

Grow(t) ==
  LET l1 == RandomElement(Leaves)  l2 == RandomElement(Leaves)  op == RandomElement(AllOps)
      k == RandomElement(1..16) IN
  CASE k \in {1, 2, 3} -> MkBin(op, t, l1)
    [] k \in {4, 5, 6} -> MkBin(op, l1, t)
    [] k = 7 -> MkPre(RandomElement(PrefixOps), t)
    [] k = 8 -> MkTypeof(t)
    [] k = 9 -> MkCond(t, l1, l2)
    [] k = 10 -> MkCond(l1, t, l2)
    [] k = 11 -> MkCond(l1, l2, t)
    [] k = 12 -> MkSel(t, RandomElement({"k", "b", "len"}), RandomElement(BOOLEAN))
    [] k = 13 -> MkCall(RandomElement({<<"Id", "f">>, <<"Sel", <<"Id", "a">>, "g", FALSE>>}), <<t, l1>>, FALSE)
    [] k = 14 -> MkCall(t, <<l1>>, FALSE)
    [] k = 15 -> MkArr(<<l1, t>>)
    [] k = 16 -> <<"Paren", t>>

\* near misses: one token deleted, inserted, replaced, or two neighbours swapped.  Whether the result is derivable is
\* decided by the specification's parser; most are not, and the real parser must reject exactly those ("anything not
\* derivable is rejected" at lengths the exhaustive models do not reach)
T3m(k, v) == <<k, v, FALSE>>
MutAlphabet ==
  { T3m("Num", <<FALSE, <<1>>, 0>>), T3m("Id", "a"), T3m("typeof", "typeof"), T3m("Kw", "null") }
  \cup { T3m(k, k) : k \in {"(", ")", "[", "]", ".", "!.", "...", ",", "?", ":", "=", "!", "!!", "-", "*", "<", "==", "&&", "??"} }
  \cup { <<".", ".", TRUE>>, <<"(", "(", TRUE>>, <<"Id", "a", TRUE>> }
MutateToks(t) ==
  LET L == Len(t)  i == RandomElement(1..L)  x == RandomElement(MutAlphabet)  k == RandomElement(1..4) IN
  CASE k = 1 -> SubSeq(t, 1, i - 1) \o SubSeq(t, i + 1, L)
    [] k = 2 -> SubSeq(t, 1, i - 1) \o <<x>> \o SubSeq(t, i, L)
    [] k = 3 -> SubSeq(t, 1, i - 1) \o <<x>> \o SubSeq(t, i + 1, L)
    [] k = 4 -> IF i < L THEN SubSeq(t, 1, i - 1) \o <<t[i + 1], t[i]>> \o SubSeq(t, i + 2, L) ELSE t \o <<x>>

VARIABLES n, tree, s, e, pin, spans, mut
vars == <<n, tree, s, e, pin, spans, mut>>
TokS(t) == [i \in 1..Len(Unparse(t)) |-> <<Unparse(t)[i][1], Unparse(t)[i][2], FALSE>>]
Set(t) == /\ tree' = t /\ s' = TokS(t) /\ e' = ParseTokens(TokS(t)) /\ pin' = TRUE
          /\ spans' = Spans(t, 1, <<>>) /\ mut' = 0
\* two steps: RandomElement is drawn again at every evaluation, so the mutated spelling is first stored (unpinned
\* state) and the specification's verdict on the stored spelling is added by the next step
SetMut == /\ tree' = tree /\ s' = MutateToks(TokS(tree)) /\ e' = <<"REJECT">> /\ pin' = FALSE /\ spans' = <<>> /\ mut' = 1
Judge == /\ tree' = tree /\ s' = s /\ e' = ParseTokens(s) /\ pin' = TRUE /\ spans' = <<>> /\ mut' = 2
Init == n = 0 /\ tree = <<"Id", "a">> /\ s = TokS(<<"Id", "a">>) /\ e = ParseTokens(TokS(<<"Id", "a">>)) /\ pin = TRUE
        /\ spans = Spans(<<"Id", "a">>, 1, <<>>) /\ mut = 0
Next == /\ n < Steps /\ n' = n + 1
        /\ IF Mutate /\ mut = 0 THEN SetMut
           ELSE IF mut = 1 THEN Judge
           ELSE IF NTok(tree) > MaxTokens THEN Set(RandomElement(Leaves)) ELSE Set(Grow(tree))
Spec == Init /\ [][Next]_vars

Complete == mut # 0 \/ (WF(tree) /\ e = <<"OK", tree>>)
=============================================================================
