------------------------------ MODULE MC_Conc ------------------------------
(* All interleavings of G goroutines at gate granularity (one gate per      *)
(* evaluated node of the shared tree).  A state is a schedule prefix; in a  *)
(* terminal state every goroutine has its result.  The shared trees never   *)
(* change (action property SharedReadOnly) and every goroutine obtains the  *)
(* sequential result (SeqEquivalent).  Terminal schedules are replayed on   *)
(* real goroutines with a blocking hook under the race detector.            *)
EXTENDS FConc
CONSTANT Workloads          \* sequence of workloads, one per goroutine
W2 == << <<"eval", 1, 1>>, <<"eval", 1, 2>> >>
W2b == << <<"eval", 2, 1>>, <<"eval", 2, 3>> >>
W3 == << <<"eval", 3, 1>>, <<"eval", 3, 2>>, <<"eval", 3, 3>> >>
W2c == << <<"eval", 4, 4>>, <<"eval", 4, 5>> >>
W3b == << <<"eval", 1, 3>>, <<"eval", 3, 2>>, <<"eval", 2, 1>> >>

G == Len(Workloads)
VARIABLES pc, sched, shared, local, res
vars == <<pc, sched, shared, local, res>>

Init == /\ pc = [g \in 1..G |-> 0] /\ sched = <<>>
        /\ shared = [i \in 1..Len(SharedTexts) |-> SharedTree(i)]
        /\ local = [g \in 1..G |-> NormMap(Datas[Workloads[g][3]])]
        /\ res = [g \in 1..G |-> <<"running">>]
\* a goroutine passes its next gate; with its last gate it completes: its result is what FEval gives
\* on the shared tree and its own data, and its "$" locals are written to its own map only
Step(g) == /\ pc[g] < GatesOf(Workloads[g])
           /\ pc' = [pc EXCEPT ![g] = @ + 1]
           /\ sched' = Append(sched, g)
           /\ IF pc[g] + 1 = GatesOf(Workloads[g])
              THEN LET o == Outcome(shared[Workloads[g][2]], [this |-> local[g], log |-> <<>>]) IN
                   /\ res' = [res EXCEPT ![g] = IF o[1] = "ok" THEN <<"ok", o[2], o[3].this>> ELSE <<"err", o[2].this>>]
                   /\ local' = [local EXCEPT ![g] = IF o[1] = "ok" THEN o[3].this ELSE o[2].this]
              ELSE UNCHANGED <<res, local>>
           /\ UNCHANGED shared
Next == \E g \in 1..G : Step(g)
Spec == Init /\ [][Next]_vars

Terminal == \A g \in 1..G : pc[g] = GatesOf(Workloads[g])
SharedReadOnly == [][shared' = shared]_vars
SeqEquivalent == Terminal => \A g \in 1..G : res[g] = Expected(Workloads[g])
NoInterference == \A g \in 1..G : (res[g] = <<"running">>) => local[g] = NormMap(Datas[Workloads[g][3]])
=============================================================================
