---------------------------- MODULE MC_Eval_c05 ----------------------------
(* Program family of C05 for MC_EvalBase: ordering and equality over value spellings *)
EXTENDS MC_EvalBase

\* ---- C05: ordering and equality over value spellings
NDraw(neg, digs, e) == <<"Lit", "Num", <<neg, digs, e>>>>      \* a spelling: digits and exponent as written
Spellings ==
  { N(1), NDraw(FALSE, <<1,0>>, -1), NDraw(FALSE, <<1>>, 0), NDraw(FALSE, <<1,0>>, -1), NDraw(FALSE, <<1,0,0>>, -2),
    N(0), NDraw(FALSE, <<0>>, -1), NDraw(FALSE, <<0>>, 3), N(2), <<"Pre", "-", N(1)>>, <<"Pre", "-", N(0)>>, <<"Pre", "-", N(2)>>,
    ND(FALSE, <<1>>, -1), ND(FALSE, <<3>>, -1), P(<<"Bin", "+", ND(FALSE, <<1>>, -1), ND(FALSE, <<2>>, -1)>>),
    P(<<"Bin", "*", N(0), <<"Pre", "-", N(1)>>>>), P(<<"Bin", "-", N(3), N(2)>>),
    ND(FALSE, <<1,0,0,0,0,0,0,0,0,0,0,0,0,0,0,0,0,0,0,0,0,0,0,0,0,0,0,0,0,0,0,0,0,1>>, 0),
    ND(FALSE, <<1,0,0,0,0,0,0,0,0,0,0,0,0,0,0,0,0,0,0,0,0,0,0,0,0,0,0,0,0,0,0,0,0,2>>, 0),
    ND(FALSE, <<1>>, 33), ND(FALSE, <<9,0,0,7,1,9,9,2,5,4,7,4,0,9,9,3>>, 0), ND(FALSE, <<9,0,0,7,1,9,9,2,5,4,7,4,0,9,9,2>>, 0),
    S(<<>>), S(<<97>>), S(<<97,98>>), S(<<98>>), S(<<65>>), S(<<195,169>>), S(<<228,184,173>>), S(<<49>>), S(<<49,48>>), S(<<57>>), S(<<49,46,48>>), S(<<239,189,158>>), S(<<240,159,152,128>>), S(<<238,128,128>>), S(<<237,159,191>>), S(<<49,101,48>>), S(<<48,49>>), S(<<45,48>>), S(<<48>>),
    KwL("true"), KwL("false"), KwL("null"),
    Id("int1"), Id("f1"), Id("f01"), Id("i64"), Id("negzero"), Id("s1"), Id("sa"), Id("nl"), Id("np"), Id("bt"), Id("i32"), Id("d3"), Id("undefined"), Id("f19"), Id("f12e18"), Id("f63"), ND(FALSE, <<1>>, 19), ND(FALSE, <<9,2,2,3,3,7,2,0,3,6,8,5,4,7,7,5,8,0,7>>, 0) }
CmpOps == {"<", ">", "<=", ">=", "==", "!=", "===", "!=="}
\* every value kind for the negation laws, also the cross-kind and container cells the specification leaves open
LawVals == Spellings \cup { <<"Arr", <<>>>>, <<"Arr", <<N(1)>>>>, Id("m5"), Id("t5") }
GroupsC05 == Spellings \cup { <<"neglaw", a>> : a \in LawVals }
GroupProgramsC05(a) ==
  IF a[1] = "neglaw"
  THEN { <<"Arr", << <<"Bin", ops[1], a[2], b>>, <<"Bin", ops[2], a[2], b>> >>>> : ops \in {<<"==", "!=">>, <<"===", "!==">>}, b \in LawVals }
  ELSE { <<"Bin", op, a, b>> : op \in CmpOps, b \in Spellings }

=============================================================================
