SPECIFICATION Spec
CONSTANT Workloads <- W2c
INVARIANT SeqEquivalent
INVARIANT NoInterference
PROPERTY SharedReadOnly
CHECK_DEADLOCK FALSE
