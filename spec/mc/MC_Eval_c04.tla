---------------------------- MODULE MC_Eval_c04 ----------------------------
(* Program family of C04 for MC_EvalBase: all operand pairs of a grid of    *)
(* decimals (zeros, 0.1 / 0.2 / 0.3, 34-digit values, ties at the 35th      *)
(* digit, large and small exponents, both signs) under + - * and, for       *)
(* short divisors, / and %; chains of three operators; Go float64 / int /   *)
(* int64 data compared with the same number written as a literal.           *)
EXTENDS MC_EvalBase

DD(neg, digs, e) == Canon(neg, digs, e)
Nines(n) == [i \in 1..n |-> 9]
Third == [i \in 1..34 |-> 3]
G4 == { DD(FALSE, <<>>, 0), DD(FALSE, <<1>>, 0), DD(TRUE, <<1>>, 0), DD(FALSE, <<1>>, -1), DD(FALSE, <<2>>, -1), DD(FALSE, <<3>>, -1),
        DD(TRUE, <<7>>, 0), DD(FALSE, <<2>>, 0), DD(FALSE, <<3>>, 0), DD(FALSE, <<1,5>>, -1), DD(TRUE, <<2,5>>, -2),
        DD(FALSE, Third, -34), DD(FALSE, Nines(34), 0), DD(FALSE, Nines(34), -34), DD(TRUE, Nines(33) \o <<5>>, -10),
        DD(FALSE, <<1>>, 33), DD(FALSE, <<1>> \o Zeros(32) \o <<1>>, 0), DD(FALSE, <<5>>, -34), DD(FALSE, <<1>>, 30), DD(TRUE, <<1>>, -30),
        DD(FALSE, <<1,2,3,4,5,6,7,8,9>>, -4), DD(FALSE, <<9,0,0,7,1,9,9,2,5,4,7,4,0,9,9,3>>, 0), DD(FALSE, <<4,5>>, 0), DD(TRUE, <<4,5>>, -1),
        DD(FALSE, <<6>>, -35), DD(FALSE, <<1>>, 5), DD(TRUE, <<6>>, -30) }          \* 1 - 6e-35, 100000 - 6e-30: just below a power of ten the grid is ten times finer
Divs == { DD(FALSE, <<3>>, 0), DD(TRUE, <<7>>, 0), DD(FALSE, <<2>>, 0), DD(FALSE, <<1,5>>, -1), DD(FALSE, <<1>>, -1), DD(FALSE, <<9,9,9,9,9>>, 2), DD(FALSE, <<4>>, 0), DD(TRUE, <<2,5>>, -2) }
\* whole numbers around the machine-word boundaries 2^31, 2^32, sqrt(2^63), 2^53, 2^63, 2^64 (written without an exponent)
W4 == { DD(FALSE, <<2,1,4,7,4,8,3,6,4,7>>, 0), DD(FALSE, <<2,1,4,7,4,8,3,6,4,9>>, 0), DD(FALSE, <<4,2,9,4,9,6,7,2,9,5>>, 0), DD(FALSE, <<4,2,9,4,9,6,7,2,9,7>>, 0), DD(FALSE, <<3,0,3,7,0,0,0,4,9,9>>, 0), DD(FALSE, <<3,0,3,7,0,0,0,5,0,1>>, 0), DD(FALSE, <<4,0,0,0,0,0,0,0,0,1>>, 0), DD(FALSE, <<3,0,0,0,0,0,0,0,0,1>>, 0), DD(FALSE, <<9,0,0,7,1,9,9,2,5,4,7,4,0,9,9,3>>, 0), DD(FALSE, <<9,2,2,3,3,7,2,0,3,6,8,5,4,7,7,5,8,0,7>>, 0), DD(FALSE, <<9,2,2,3,3,7,2,0,3,6,8,5,4,7,7,5,8,0,9>>, 0), DD(FALSE, <<1,8,4,4,6,7,4,4,0,7,3,7,0,9,5,5,1,6,1,5>>, 0), DD(FALSE, <<1,8,4,4,6,7,4,4,0,7,3,7,0,9,5,5,1,6,1,7>>, 0) }
Lt(x) == IF x[1] THEN P(<<"Pre", "-", <<"Lit", "Num", <<FALSE, x[2], x[3]>>>>>>) ELSE <<"Lit", "Num", x>>

GroupsC04 == { <<"pm", a>> : a \in G4 } \cup { <<"div", b>> : b \in Divs } \cup { <<"chain", a>> : a \in {DD(FALSE, <<1>>, -1), DD(FALSE, Nines(34), 0), DD(TRUE, <<7>>, 0)} }
             \cup { <<"data">> } \cup { <<"word", a>> : a \in W4 }
GroupProgramsC04(g) ==
  CASE g[1] = "pm" -> { <<"Bin", op, Lt(g[2]), Lt(b)>> : op \in {"+", "-", "*"}, b \in G4 }
    [] g[1] = "word" -> { <<"Bin", op, Lt(g[2]), Lt(b)>> : op \in {"+", "-", "*"}, b \in W4 \cup {DD(TRUE, <<3,0,3,7,0,0,0,5,0,1>>, 0)} }
    [] g[1] = "div" -> { <<"Bin", op, Lt(a), Lt(g[2])>> : op \in {"/", "%"}, a \in G4 }
    [] g[1] = "chain" -> { <<"Bin", o3, <<"Bin", o2, <<"Bin", o1, Lt(g[2]), Lt(b)>>, Lt(c)>>, Lt(g[2])>> :
                              o1 \in {"+", "*"}, o2 \in {"-", "*"}, o3 \in {"+", "-"}, b \in {DD(FALSE, <<2>>, -1), DD(FALSE, Third, -34), DD(FALSE, <<1>>, 33)},
                              c \in {DD(FALSE, <<3>>, -1), DD(FALSE, <<5>>, -34)} }
                         \cup { <<"Bin", "===", <<"Bin", "+", Lt(DD(FALSE, <<1>>, -1)), Lt(DD(FALSE, <<2>>, -1))>>, Lt(DD(FALSE, <<3>>, -1))>> }
                         \* an exact zero that carries fraction digits is the number zero: 0.1 + 0.2 - 0.3, 2.5 % 0.5, 1.5 - 1.5, 0.00, -0.0
                         \cup { <<"Bin", op, z, Lt(w)>> : op \in {"===", "!==", "==", "<", ">="}, w \in {DD(FALSE, <<>>, 0)},
                                    z \in { <<"Bin", "-", <<"Bin", "+", Lt(DD(FALSE, <<1>>, -1)), Lt(DD(FALSE, <<2>>, -1))>>, Lt(DD(FALSE, <<3>>, -1))>>,
                                            <<"Bin", "%", Lt(DD(FALSE, <<2,5>>, -1)), Lt(DD(FALSE, <<5>>, -1))>>,
                                            <<"Bin", "-", Lt(DD(FALSE, <<1,5>>, -1)), Lt(DD(FALSE, <<1,5>>, -1))>>,
                                            <<"Bin", "*", Lt(DD(FALSE, <<>>, 0)), Lt(DD(FALSE, <<2,5>>, -2))>>,
                                            <<"Bin", "-", Lt(DD(FALSE, <<1,9,9,9>>, -2)), Lt(DD(FALSE, <<1,9,9,9>>, -2))>> } }
                         \cup { <<"Bin", "===", <<"Bin", "-", Lt(DD(FALSE, <<1,5>>, -1)), Lt(DD(FALSE, <<1,5>>, -1))>>, <<"Bin", "*", Lt(DD(FALSE, <<>>, 0)), Lt(DD(FALSE, <<2,5>>, -2))>>>> }
    [] g[1] = "data" ->
         { <<"Bin", "===", Id(n), Lt(v)>> : n \in {"i64", "f01", "int1", "f1", "i32", "d3", "negzero"},
                                           v \in {DD(FALSE, <<9,0,0,7,1,9,9,2,5,4,7,4,0,9,9,3>>, 0), DD(FALSE, <<1>>, -1), DD(FALSE, <<1>>, 0), DD(TRUE, <<2>>, 0), DD(FALSE, <<3>>, -1), DD(FALSE, <<>>, 0)} }
         \cup { <<"Bin", op, Id(n), Id(m)>> : op \in {"+", "*", "-"}, n \in {"i64", "f01", "int1", "d3"}, m \in {"i64", "f01", "i32", "d3"} }
         \cup { <<"Arr", <<Id(n)>>>> : n \in {"i64", "f01", "int1", "f1", "i32", "d3", "negzero"} }

\* ---- algebraic sanity of the oracle itself (FDecimal), on the grid
IsBinOf(op) == IsCase /\ tree[1] = "Bin" /\ tree[2] = op /\ out[1] = "ok" /\ out[2][1] = "num"
               /\ tree[3][1] \in {"Lit", "Paren"} /\ tree[4][1] \in {"Lit", "Paren"}
Val(t) == IF t[1] = "Paren" THEN DNeg(Canon(FALSE, t[2][3][3][2], t[2][3][3][3])) ELSE Canon(t[3][1], t[3][2], t[3][3])
OracleSane ==
  /\ IsBinOf("+") => DecOf(out[2]) = DAdd(Val(tree[4]), Val(tree[3]))                      \* commutative
  /\ IsBinOf("*") => DecOf(out[2]) = DMul(Val(tree[4]), Val(tree[3]))
  /\ IsBinOf("-") => (Val(tree[3]) = Val(tree[4]) => DIsZero(DecOf(out[2])))
  /\ IsBinOf("/") => DIsQuo(Val(tree[3]), Val(tree[4]), DecOf(out[2]))                    \* the quotient passes the multiplication bracket
  /\ IsBinOf("%") => LET r == DecOf(out[2])  a == Val(tree[3])  b == Val(tree[4]) IN
                     /\ DCmp(DAbs(r), DAbs(b)) < 0
                     /\ (DIsZero(r) \/ r[1] = a[1])
                     /\ LET q == DAddExact(a, DNeg(r)) IN DIsZero(DRem(q, b))             \* a - r is a multiple of b
  /\ (IsCase /\ out[1] = "ok" /\ out[2][1] = "num") => Len(out[2][3]) <= 34
=============================================================================
