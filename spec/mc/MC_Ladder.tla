----------------------------- MODULE MC_Ladder -----------------------------
(* The precedence ladder and associativity on operator chains (C02): every  *)
(* pair and triple of binary operators (incl. "=" "," and "?:") in          *)
(* a op1 b op2 c (op3 d).  Invariant: the tree groups exactly as Prec and   *)
(* left associativity say, stated independently of the parser by a          *)
(* fold over the chain (shunting by precedence).                            *)
EXTENDS FGrammar, TLC
CONSTANT Triples

AllOps == BinOps \cup {"=", ","}
A(n) == <<"Id", n, FALSE>>
O(k) == <<k, k, FALSE>>
Names == <<"a", "b", "c", "d">>

VARIABLES ops, s, e
vars == <<ops, s, e>>

Chain(os) == <<A("a")>> \o (IF Len(os) >= 1 THEN <<O(os[1]), A("b")>> ELSE <<>>)
                       \o (IF Len(os) >= 2 THEN <<O(os[2]), A("c")>> ELSE <<>>)
                       \o (IF Len(os) >= 3 THEN <<O(os[3]), A("d")>> ELSE <<>>)

Init == ops = <<>> /\ s = Chain(<<>>) /\ e = ParseTokens(Chain(<<>>))
Next == /\ Len(ops) < (IF Triples THEN 3 ELSE 2)
        /\ \E k \in AllOps : ops' = Append(ops, k) /\ s' = Chain(ops') /\ e' = ParseTokens(s')
Spec == Init /\ [][Next]_vars

\* binding strength of an operator in a chain: "," loosest, then "=" (right associative), then the ladder
Strength(k) == IF k = "," THEN 1 ELSE IF k = "=" THEN 2 ELSE 2 + Prec(k)
RightAssoc(k) == k = "="
\* reference grouping of x0 o1 x1 o2 x2 ...: split at the loosest operator (the last one for
\* left-associative operators, the first one for "=")
RECURSIVE Group(_, _)
Group(xs, os) ==
  IF Len(os) = 0 THEN xs[1]
  ELSE LET m == CHOOSE m \in 1..Len(os) :
                  /\ \A j \in 1..Len(os) : Strength(os[m]) <= Strength(os[j])
                  /\ \A j \in 1..Len(os) : Strength(os[j]) = Strength(os[m]) =>
                                              (IF RightAssoc(os[m]) THEN m <= j ELSE j <= m)
       IN <<"Bin", os[m], Group(SubSeq(xs, 1, m), SubSeq(os, 1, m - 1)),
                          Group(SubSeq(xs, m + 1, Len(xs)), SubSeq(os, m + 1, Len(os)))>>
\* "a = b" as left operand of a tighter operator is not derivable (a + b = c parses, a = b + c too, but
\* the left side of "=" is a binary-level expression): chains where "=" has a "," to its left only
Derivable(os) == \A i \in 1..Len(os) : os[i] = "=" => \A j \in 1..(i - 1) : TRUE
Ladder == e = <<"OK", Group([i \in 1..(Len(ops) + 1) |-> <<"Id", Names[i]>>], ops)>>
=============================================================================
