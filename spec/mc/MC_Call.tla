------------------------------ MODULE MC_Call ------------------------------
(* C11: signatures of up to two parameters (optionally a leading context,   *)
(* optionally variadic) x argument lists of length 0..n+2 over a pool of    *)
(* values of every kind x spread x the function's way of returning.         *)
(* Every state carries CallOutcome(sig, args, spread) and the value the     *)
(* evaluation must yield; the driver synthesises the function reflectively. *)
EXTENDS FCall, FData, TLC
CONSTANTS MaxParams, Kinds

ArgDescs == << <<"dec", FALSE, <<7>>, 0>>, <<"dec", FALSE, <<2,7,5>>, -2>>, <<"dec", TRUE, <<2,7,5>>, -2>>, <<"str", <<97,98>>>>, <<"bool", TRUE>>, <<"nil">>,
               <<"slice", << <<"dec", FALSE, <<1>>, 0>>, <<"dec", FALSE, <<2,5>>, -1>> >>>>, <<"slice", << <<"str", <<97>>>>, <<"str", <<98>>>> >>>>,
               <<"map", [k |-> <<"int", 1>>]>>, <<"time", 19000, 0, 0>>, <<"dec", FALSE, <<3>>, 2>>, <<"slice", <<>>>>,
               <<"strs", << <<97>>, <<98>> >>>>, <<"ints", <<1, 2>>>>,             \* typed Go slices []string{"a","b"}, []int{1,2}
               <<"slice", << <<"dec", FALSE, <<1>>, 0>>, <<"nil">>, <<"str", <<97>>>> >>>> >>      \* [1, null, 'a']
\*              7           2.75          -2.75        'ab'       true     null     [1, 2.5]      ['a','b']     {k:1}    a time     300 (beyond int8)   []
Rets == {"int", "int32", "int64", "float32", "float32b", "float64", "string", "error", "nil"}

VARIABLES phase, sig, args, spread, ret, out
vars == <<phase, sig, args, spread, ret, out>>

Sigs == { <<c, ks, v>> : c \in BOOLEAN, ks \in UNION { [1..n -> Kinds] : n \in 0..MaxParams }, v \in BOOLEAN }
ValidSig(s) == s[3] => (Len(s[2]) >= 1 /\ s[2][Len(s[2])] \in {"string", "int", "any", "float64", "big"})
\* the value the formula yields when the function is called
RetValue(r) == CASE r = "int" -> <<"v", NumI(7)>> [] r = "int32" -> <<"v", NumI(-3)>> [] r = "int64" -> <<"v", NumOf(Canon(FALSE, <<9,0,0,7,1,9,9,2,5,4,7,4,0,9,9,3>>, 0))>>
                 [] r = "float32" -> <<"v", NumOf(Canon(FALSE, <<2,5>>, -1))>>
                 [] r = "float32b" -> <<"v", NumOf(Canon(FALSE, <<1,0,0,0,0,0,0,0,1,4,9,0,1,1,6,1,2>>, -17))>>     \* float32(0.1) is the number 0.10000000149011612
                 [] r = "float64" -> <<"v", NumOf(Canon(FALSE, <<1>>, -1))>>
                 [] r = "string" -> <<"v", Str(<<111,107>>)>> [] r = "nil" -> <<"v", Null>> [] r = "error" -> <<"named-error">>
Outcome(s, as, sp, r) ==
  LET vals == [i \in 1..Len(as) |-> Norm(ArgDescs[as[i]])]
      c == CallOutcome(s, vals, sp)
  IN IF c[1] = "called" THEN <<"called", c[2], RetValue(r)>> ELSE c

\* the cases of one signature: (a) an arity sweep with a plain argument, (b) every pool value at every position of
\* the fitting lengths, (c) spread with every pool value last, (d) the ways of returning on a plain fitting call
Pool == 1..Len(ArgDescs)
Fits(s) == IF s[3] THEN {Len(s[2]) - 1, Len(s[2]), Len(s[2]) + 1} ELSE {Len(s[2])}
Cases(s) ==
  { <<[i \in 1..n |-> 1], sp, r>> : n \in 0..(Len(s[2]) + 2), sp \in BOOLEAN, r \in {"int"} }
  \cup { <<[i \in 1..n |-> IF i = n THEN a ELSE 1], TRUE, "int">> : n \in 1..(Len(s[2]) + 2), a \in {7, 8, 12, 13, 14, 15} }      \* spread of an array at every length
  \cup { <<as, FALSE, r>> : as \in UNION { [1..n -> Pool] : n \in Fits(s) \cap (0..3) }, r \in {"int", "error"} }
  \cup { <<as, TRUE, "int">> : as \in UNION { [1..n -> Pool] : n \in {Len(s[2])} \cap (1..2) } }
  \cup { <<[i \in 1..Len(s[2]) |-> 1], FALSE, r>> : r \in Rets }

Init == /\ phase = "seed" /\ sig = <<FALSE, <<>>, FALSE>> /\ args = <<>> /\ spread = FALSE /\ ret = "int" /\ out = <<"none">>
Next == \/ /\ phase = "seed" /\ phase' = "group"
           /\ \E s \in Sigs : ValidSig(s) /\ sig' = s
           /\ UNCHANGED <<args, spread, ret, out>>
        \/ /\ phase = "group" /\ phase' = "case"
           /\ \E c \in Cases(sig) :
                /\ sig' = sig /\ args' = c[1] /\ spread' = c[2] /\ ret' = c[3]
                /\ out' = Outcome(sig, c[1], c[2], c[3])
Spec == Init /\ [][Next]_vars

IsCase == phase = "case"
\* C11 on the specification
Decided == IsCase => out[1] \in {"called", "notcalled", "u"}
SpreadNeedsVariadic == (IsCase /\ spread /\ ~sig[3]) => out[1] = "notcalled"
ArityFixed == (IsCase /\ ~sig[3] /\ ~spread /\ Len(args) # Len(sig[2])) => out[1] = "notcalled"
ArityVariadic == (IsCase /\ sig[3] /\ ~spread /\ Len(args) < Len(sig[2]) - 1) => out[1] = "notcalled"
ReceivedCount == (IsCase /\ out[1] = "called" /\ ~spread) => Len(out[2]) = Len(args)
=============================================================================
