SPECIFICATION Spec
INVARIANT BasesAreSentences
INVARIANT MutantsJudged
CHECK_DEADLOCK FALSE
