SPECIFICATION Spec
CONSTANT Workloads <- W3b
INVARIANT SeqEquivalent
INVARIANT NoInterference
PROPERTY SharedReadOnly
CHECK_DEADLOCK FALSE
