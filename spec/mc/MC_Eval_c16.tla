---------------------------- MODULE MC_Eval_c16 ----------------------------
(* Program family of C16 for MC_EvalBase: names and member access *)
EXTENDS MC_EvalBase

\* ---- C16: names and member access
Roots16 == { Id("m"), Id("tm"), Id("st"), Id("np"), Id("nl"), Id("undefined"), Id("s"), Id("n"), Id("a"), Id("len"), Id("abs"),
             KwL("this"), Id("sl"), Id("tt"), Id("bt"), Id("nm"), Id("ns"), Id("ts"), Id("f63"), Id("f19"), Id("ra"), Id("rb") }
Keys16 == {"a", "b", "z", "n", "A", "B", "N", "P", "c", "len", "q", "true", "null", "Name", "Qty"}          \* keywords are ordinary names after a dot
Step16(es) == { <<"Sel", e, k, as>> : e \in es, k \in Keys16, as \in BOOLEAN }
Step1(e) == { <<"Sel", e, k, as>> : k \in Keys16, as \in BOOLEAN }
DeepRoots == {Id("m"), Id("st"), KwL("this"), Id("np"), Id("undefined")}
GroupsC16 == { <<"root", r>> : r \in Roots16 } \cup { <<"deep", r, k, as>> : r \in DeepRoots, k \in Keys16, as \in BOOLEAN }
GroupProgramsC16(g) ==
  IF g[1] = "root" THEN
     LET r == g[2]  p1 == Step1(r)  p2 == UNION { Step1(e) : e \in p1 } IN
     {r} \cup p1 \cup p2 \cup { <<"Bin", "===", p, KwL("null")>> : p \in p1 } \cup { <<"Bin", "==", r, KwL("null")>> }
     \* null on either side, strict and loose, and a typed nil against another spelling of null
     \cup { <<"Bin", op, KwL("null"), r>> : op \in {"===", "!==", "==", "!="} } \cup { <<"Bin", op, r, KwL("null")>> : op \in {"===", "!=="} }
     \cup { <<"Bin", op, x, r>> : op \in {"===", "!=="}, x \in {Id("np"), Id("undefined"), Id("nl"), <<"Sel", KwL("this"), "np", FALSE>>} }
  ELSE UNION { Step1(e) : e \in Step1(<<"Sel", g[2], g[3], g[4]>>) }
=============================================================================
