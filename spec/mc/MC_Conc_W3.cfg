SPECIFICATION Spec
CONSTANT Workloads <- W3
INVARIANT SeqEquivalent
INVARIANT NoInterference
PROPERTY SharedReadOnly
CHECK_DEADLOCK FALSE
