---------------------------- MODULE MC_Eval_c10 ----------------------------
(* Program family of C10 for MC_EvalBase: referenced fields *)
EXTENDS MC_EvalBase

\* ---- C10: referenced fields
L10 == { Id("a"), Id("b"), Id("p$q"), SelE(Id("a"), "$r"), SelE(Id("a"), "b"), SelE(SelE(Id("a"), "b"), "c"), SelA(Id("a"), "k"), Id("$l"), N(1), KwL("this"), SelE(KwL("this"), "a"), Id("e"),
         SelE(Id("$l"), "b"), SelA(SelE(Id("$l"), "a"), "k"),
         Id("B"), SelE(Id("A"), "b"), Id("len"), Id("max"),
         SelE(Id("a"), "null"), SelE(SelE(Id("a"), "this"), "b"), SelA(Id("b"), "ctx"), SelE(Id("a"), "typeof") }      \* keywords are ordinary names after a dot           \* case twins of a and b; names shared with builtins, in value position           \* paths rooted at a local: no fields of the data
U10 == L10 \cup { P(e) : e \in {Id("a"), SelE(Id("a"), "b")} } \cup { <<"Pre", "-", e>> : e \in {Id("b"), SelE(Id("a"), "k")} }
           \cup { <<"Typeof", e>> : e \in {Id("b"), SelE(Id("a"), "b")} }
           \cup { Call1("f", e) : e \in L10 } \cup { Call1("g", e) : e \in {Id("b"), Id("$l")} }
           \cup { <<"Call", SelE(Id("a"), "f"), <<Id("b")>>, FALSE>>, <<"Call", Id("recs"), <<Id("b"), <<"Arr", <<Id("c")>>>>>>, TRUE>>,
                  <<"Sel", Call1("f", Id("b")), "k", FALSE>>, <<"Sel", P(Id("a")), "b", FALSE>>, <<"Arr", <<Id("a"), Id("c")>>>>, <<"Arr", <<>>>> }
           \cup { Asg("$l", e) : e \in {Id("b"), N(1), SelE(Id("a"), "k")} } \cup { Asg("b", N(1)), <<"Bin", "=", SelE(Id("a"), "k"), Id("c")>> }
RECURSIVE Chain10(_, _)
Chain10(e, n) == IF n = 0 THEN e ELSE Chain10(SelE(e, IF n % 2 = 0 THEN "b" ELSE "k"), n - 1)
GroupsC10 == { <<"one">> } \cup { <<"bin", a>> : a \in U10 } \cup { <<"cond", c>> : c \in {Id("e"), Id("b"), SelE(Id("a"), "k")} }
GroupProgramsC10(g) ==
  CASE g[1] = "one" -> U10 \cup { <<"Arr", <<x, y, x>>>> : x \in {Id("B"), Id("b"), SelE(Id("a"), "b")}, y \in {Id("b"), Id("B"), SelE(Id("A"), "b"), Id("c")} }
                           \cup { Chain10(Id("a"), 13), <<"Bin", "+", Chain10(Id("b"), 15), Id("c")>>, Chain10(Id("$l"), 14) }      \* long paths keep their segment order
                           \cup { <<"Arr", <<x, y, z, x, y>>>> : x \in {Id("b")}, y \in {Id("B")}, z \in {Id("c"), Id("C")} }      \* repeated and interleaved occurrences: no duplicates
    [] g[1] = "bin" -> { <<"Bin", op, g[2], b>> : op \in {"+", ",", "&&", "==="}, b \in {x \in U10 : Level(x) >= 11} }
    [] g[1] = "cond" -> { <<"Cond", g[2], a, b>> : a \in U10, b \in {Id("c"), SelE(Id("a"), "b"), Id("$l"), N(1)} }
=============================================================================
