----------------------------- MODULE MC_Chars -----------------------------
(* Character classes for every Unicode code point (C14).  The class of a  *)
(* code point can only change at a "critical" point: a boundary of one of *)
(* the ES5 ranges, of the ASCII classes, or of the whitespace / line      *)
(* break sets.  One state per critical point c carries its class and the  *)
(* next critical point nxt; the class is constant on [c, nxt), which the  *)
(* driver checks against the real predicates for every code point.        *)
EXTENDS FChars, TLC

Specials == {0, 9, 10, 11, 12, 13, 14, 32, 33, 36, 37, 48, 58, 65, 91, 95, 96, 97, 123, 127, 128,
             133, 134, 160, 161, 5760, 5761, 8192, 8204, 8232, 8233, 8234, 8239, 8240, 8287, 8288,
             12288, 12289, 65279, 65280, 65533, 55296, 57344, 65536, 1114111, 1114112}
RangeEnds(tab) == UNION { {tab[i][1], tab[i][2] + 1} : i \in 1..Len(tab) }
Crit == Specials \cup RangeEnds(ES5Start) \cup RangeEnds(ES5Part)

VARIABLES c, nxt, cls
Init == /\ c \in Crit \ {1114112}
        /\ nxt = CHOOSE n \in Crit : n > c /\ \A m \in Crit : m > c => n <= m
        /\ cls = ClassOf(c)
Next == UNCHANGED <<c, nxt, cls>>
Spec == Init /\ [][Next]_<<c, nxt, cls>>

\* sanity of the class tables themselves
StartIsPart == cls[3] => cls[4]
WSandLBDisjoint == ~(cls[1] /\ cls[2])
TriviaNotIdent == (cls[1] \/ cls[2]) => ~cls[4]
\* the class really is constant up to the next critical point (checked at both ends)
ConstantToNext == ClassOf(nxt - 1) = cls
=============================================================================
