SPECIFICATION Spec
CONSTANT Triples = FALSE
INVARIANT Ladder
CHECK_DEADLOCK FALSE
