SPECIFICATION Spec
CONSTANT Groups <- GroupsC06
CONSTANT GroupPrograms <- GroupProgramsC06
CONSTANT DataIds = {"D6"}
INVARIANT Reparse
INVARIANT EvalTotal
INVARIANT FalsyExactly
INVARIANT OnlySelectedBranch
CHECK_DEADLOCK FALSE
