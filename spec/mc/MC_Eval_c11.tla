---------------------------- MODULE MC_Eval_c11 ----------------------------
(* Program family of C11 for MC_EvalBase: a call inside a formula.  The     *)
(* callee is evaluated first, then the arguments left to right, then the    *)
(* function is invoked exactly once - or not at all when the callee fails,  *)
(* is no function, or an argument fails.  The host functions rec / fail /   *)
(* recs log every invocation; the log is part of the observation.           *)
EXTENDS MC_EvalBase

Rec(e) == Call1("rec", e)
Args11 == { N(1), Id("x"), Rec(N(2)), Call1("fail", N(3)), KwL("null"), Asg("$a", N(4)), SelE(Id("y"), "k") }
Callees11 == { Id("rec"), Id("recs"), Id("fail"), Id("x"), Id("undefined"), SelE(Id("y"), "k"), SelA(Id("nl"), "f"), SelE(Id("nl"), "f"),
               SelA(Id("y"), "f"), Id("$a") }
GroupsC11 == { <<"callee", c>> : c \in Callees11 } \cup { <<"rebound">> }
GroupProgramsC11(g) ==
  CASE g[1] = "callee" ->
         { <<"Call", g[2], <<a>>, FALSE>> : a \in Args11 }
         \cup { <<"Call", g[2], <<a, b>>, FALSE>> : a \in Args11, b \in Args11 }
         \cup { <<"Call", g[2], <<>>, FALSE>> }
    [] g[1] = "rebound" ->
         { <<"Bin", ",", Asg("$a", Id(f1)), <<"Call", Id("$a"), <<P(<<"Bin", ",", Asg("$a", v2), e>>)>>, FALSE>>>> :
              f1 \in {"rec", "fail", "recs"}, v2 \in {Id("rec"), Id("fail"), N(5), KwL("null")}, e \in {N(1), Rec(N(2))} }
=============================================================================
