SPECIFICATION Spec
CONSTANT K = 4
CONSTANT Alphabet <- ClassAlphabet
INVARIANT GrammarSound
INVARIANT ParseTotal
INVARIANT EmptyRejected
INVARIANT NewlineOnlyMatters
CHECK_DEADLOCK FALSE
