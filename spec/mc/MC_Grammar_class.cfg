SPECIFICATION Spec
CONSTANT K = 4
CONSTANT Alphabet <- ClassAlphabet
INVARIANT GrammarSound
INVARIANT ParseTotal
INVARIANT EmptyRejected
INVARIANT NewlineOnlyMatters
INVARIANT RangesNest
INVARIANT SubtextReparses
CHECK_DEADLOCK FALSE
