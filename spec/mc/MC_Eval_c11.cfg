SPECIFICATION Spec
CONSTANT Groups <- GroupsC11
CONSTANT GroupPrograms <- GroupProgramsC11
CONSTANT DataIds = {"D7"}
INVARIANT Reparse
INVARIANT EvalTotal

INVARIANT Frame
CHECK_DEADLOCK FALSE
