---------------------------- MODULE MC_Strings ----------------------------
(* String literals round-trip (C13).  A reference escaper: every character *)
(* of a text may be written in any of its equivalent forms (verbatim, the  *)
(* simple escapes, \xHH, \uHHHH in either hex case); the literal is the    *)
(* concatenation of the chosen forms between single or double quotes.      *)
(* States enumerate texts of up to K characters x all choice vectors x     *)
(* both quote styles, plus literals left open at a line break or at the    *)
(* end of input.  Invariant RoundTrip: FLexer decodes the literal to        *)
(* exactly the text's bytes; open literals are lexical errors.             *)
EXTENDS FLexer, FGrammar, TLC
CONSTANT K

\* code points; a negative number -b stands for the stray byte b (invalid UTF-8): 0xFF never occurs in UTF-8, 0x85 is a
\* continuation byte without its lead (read as Latin-1 it would be U+0085, a line break)
Chars == {97, 39, 34, 92, 10, 13, 9, 0, 8, 12, 11, 49, 110, 233, 20013, 38745, 65509, 8232, 133, 120, 117, -255, -133}
Utf8(c) == IF c < 0 THEN <<-c>> ELSE Encode(c)

HexLo == <<48,49,50,51,52,53,54,55,56,57,97,98,99,100,101,102>>
HexUp == <<48,49,50,51,52,53,54,55,56,57,65,66,67,68,69,70>>
Hex2(n, tab) == <<tab[(n \div 16) + 1], tab[(n % 16) + 1]>>
Hex4(n, tab) == <<tab[(n \div 4096) + 1], tab[((n \div 256) % 16) + 1], tab[((n \div 16) % 16) + 1], tab[(n % 16) + 1]>>

SimpleEsc(c) == CASE c = 39 -> <<92, 39>> [] c = 34 -> <<92, 34>> [] c = 92 -> <<92, 92>> [] c = 10 -> <<92, 110>>
                  [] c = 13 -> <<92, 114>> [] c = 9 -> <<92, 116>> [] c = 8 -> <<92, 98>> [] c = 12 -> <<92, 102>>
                  [] c = 11 -> <<92, 118>> [] c = 0 -> <<92, 48>> [] OTHER -> <<>>

\* the equivalent spellings of character c inside a literal delimited by quote q: <<literal bytes, "ok"|"bad">>
Forms(c, q) ==
  (IF c # q /\ c # 92 THEN {<<Utf8(c), IF c >= 0 /\ IsLB(c) THEN "bad" ELSE "ok">>} ELSE {})     \* verbatim (a raw line break opens the literal)
  \cup (IF c >= 0 /\ SimpleEsc(c) # <<>> THEN {<<SimpleEsc(c), "ok">>} ELSE {})
  \cup (IF c >= 0 /\ c < 256 THEN {<<<<92, 120>> \o Hex2(c, HexLo), "ok">>, <<<<92, 120>> \o Hex2(c, HexUp), "ok">>} ELSE {})
  \cup (IF c >= 0 /\ c < 65536 THEN {<<<<92, 117>> \o Hex4(c, HexLo), "ok">>, <<<<92, 117>> \o Hex4(c, HexUp), "ok">>} ELSE {})

VARIABLES q, lit, want, poison, closed, text, lx, e, n
vars == <<q, lit, want, poison, closed, text, lx, e, n>>

ParseOf(l) == IF l.st = "free" THEN <<"FREE">> ELSE IF l.st = "bad" THEN <<"REJECT">> ELSE ParseTokens(GToks(l.toks))
Mk(qq, l, cl) == <<qq>> \o l \o (IF cl THEN <<qq>> ELSE <<>>)

Init == /\ q \in {39, 34} /\ closed \in BOOLEAN
        /\ lit = <<>> /\ want = <<>> /\ poison = FALSE /\ n = 0
        /\ text = Mk(q, <<>>, closed) /\ lx = LexAll(Mk(q, <<>>, closed)) /\ e = ParseOf(LexAll(Mk(q, <<>>, closed)))
Next == /\ n < K /\ ~poison /\ n' = n + 1
        /\ \E c \in Chars : \E f \in Forms(c, q) :
             /\ lit' = lit \o f[1]
             /\ want' = want \o Utf8(c)
             /\ poison' = (f[2] = "bad")
             /\ text' = Mk(q, lit', closed)
             /\ lx' = LexAll(text')
             /\ e' = ParseOf(lx')
        /\ UNCHANGED <<q, closed>>
Spec == Init /\ [][Next]_vars

\* the theorem: decoding the escaped literal gives back exactly the text
RoundTrip ==
  IF closed /\ ~poison
  THEN lx.st = "ok" /\ Len(lx.toks) = 2 /\ lx.toks[1][1] = "Str" /\ lx.toks[1][5] = want
       /\ e = <<"OK", <<"Lit", "Str", want>>>>
  ELSE lx.st = "bad" /\ e = <<"REJECT">>      \* open at a line break or at the end of input
=============================================================================
