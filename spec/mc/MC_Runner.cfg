SPECIFICATION Spec
CONSTANT N = 3
CONSTANT Runners = {"r1", "r2"}
PROPERTY Frame
PROPERTY AuxInvisible
PROPERTY ReplaceDiscardsLocals
PROPERTY SetEntryCreatesMap
CHECK_DEADLOCK FALSE
