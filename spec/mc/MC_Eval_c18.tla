---------------------------- MODULE MC_Eval_c18 ----------------------------
(* Program family of C18 for MC_EvalBase: numeric builtins on a grid of     *)
(* ties, signs, zeros, integers, near-integers, 15-digit values and scaled  *)
(* values; max/min on all argument lists of length 1-3 (and some of 4-6);   *)
(* toInt / toFloat / toString / finite; the bit operators on all pairs of   *)
(* an integer grid.  Invariants state what the names say, independently of  *)
(* the FDecimal operators used to compute the expected values.              *)
EXTENDS MC_EvalBase

DD(neg, digs, e) == Canon(neg, digs, e)
Grid == { DD(FALSE, <<>>, 0), DD(FALSE, <<5>>, -1), DD(TRUE, <<5>>, -1), DD(FALSE, <<1,5>>, -1), DD(TRUE, <<1,5>>, -1),
          DD(FALSE, <<2,5>>, -1), DD(TRUE, <<2,5>>, -1), DD(FALSE, <<3,5>>, -1), DD(TRUE, <<3,5>>, -1),
          DD(FALSE, <<1>>, 0), DD(TRUE, <<1>>, 0), DD(FALSE, <<2>>, 0), DD(TRUE, <<7>>, 0), DD(FALSE, <<2,4>>, -1), DD(FALSE, <<2,6>>, -1),
          DD(TRUE, <<2,4>>, -1), DD(TRUE, <<2,6>>, -1), DD(FALSE, <<4,9,9,9,9,9,9,9,9,9,9,9,9,9,9>>, -15), DD(FALSE, <<5,0,0,0,0,0,0,0,0,0,0,0,0,0,1>>, -15),
          DD(TRUE, <<4,9,9,9,9,9,9,9,9,9,9,9,9,9,9>>, -15), DD(FALSE, <<2,0,0,0,0,0,0,0,0,0,1>>, -10), DD(TRUE, <<1,9,9,9,9,9,9,9,9,9,9>>, -10),
          DD(FALSE, <<1,2,3,4,5,6,7,8,9,0,1,2,3,4,5>>, 0), DD(FALSE, <<9,9,9,9,9,9,9,9,9,9,9,9,9,9,5>>, -1), DD(TRUE, <<1,2,3,4,5,6,7,8,9,0,1,2,3,4,5>>, -1),
          DD(FALSE, <<1>>, 15), DD(FALSE, <<1,5>>, -16), DD(TRUE, <<1>>, -15), DD(FALSE, <<1,2,3>>, 13), DD(FALSE, <<9,9,9>>, -3),
          DD(FALSE, <<1,0,0,5>>, -1), DD(TRUE, <<1,0,0,5>>, -1), DD(FALSE, <<1,5>>, 9), DD(FALSE, <<2,5>>, 9), DD(TRUE, <<1,2,5>>, 18), DD(FALSE, <<1,5>>, -11), DD(FALSE, <<3,7,5>>, -22), DD(FALSE, <<1,5>>, 99), DD(FALSE, <<1,2,5>>, -2), DD(TRUE, <<8,7,5>>, -3) }
Lt(x) == IF x[1] THEN <<"Pre", "-", <<"Lit", "Num", <<FALSE, x[2], x[3]>>>>>> ELSE <<"Lit", "Num", x>>
C(f, as) == <<"Call", Id(f), as, FALSE>>
Small == { DD(FALSE, <<>>, 0), DD(FALSE, <<1>>, 0), DD(TRUE, <<1>>, 0), DD(FALSE, <<1,5>>, -1), DD(FALSE, <<1,5,0>>, -2), DD(TRUE, <<2,5>>, -1),
           DD(FALSE, <<1>>, 1), DD(FALSE, <<9,9>>, -1) }
Ints18 == { DD(FALSE, <<>>, 0), DD(FALSE, <<1>>, 0), DD(TRUE, <<1>>, 0), DD(FALSE, <<2>>, 0), DD(TRUE, <<2>>, 0), DD(FALSE, <<5>>, 0), DD(FALSE, <<6>>, 0),
            DD(FALSE, <<2,5,5>>, 0), DD(FALSE, <<2,5,6>>, 0), DD(TRUE, <<2,5,6>>, 0), DD(FALSE, <<6,5,5,3,5>>, 0), DD(FALSE, <<4,2,9,4,9,6,7,2,9,6>>, 0),
            DD(TRUE, <<2,1,4,7,4,8,3,6,4,8>>, 0), DD(FALSE, <<9,0,0,7,1,9,9,2,5,4,7,4,0,9,9,1>>, 0), DD(TRUE, <<9,0,0,7,1,9,9,2,5,4,7,4,0,9,9,1>>, 0),
            DD(FALSE, <<1,2,3,4,5,6,7,8,9>>, 0), DD(FALSE, <<1,5>>, -1), DD(TRUE, <<2,7>>, -1) }
Texts == { <<49,50>>, <<45,49,46,53>>, <<49,101,51>>, <<48,48,55>>, <<97,98,99>>, <<>>, <<49,120>>, <<46,53>>, <<53,46>>, <<45,48>>, <<49,50,51,46,52,53,54,101,45,50>>,
           <<49,101,43,53>>, <<49,69,43,49,53>>, <<50,46,53,101,43,49,48>>, <<45>>, <<43>>, <<105,110>>, <<110,97>>, <<105>>, <<105,110,102,105,110,105,116>>, <<45,105,110>>, <<32>>, <<49,32>> }

\* whole numbers that carry fractional zeros (computed: 0.5 * 4 = 2.0, 1.25 * 4 = 5.00, 2.5 - 0.5, -1.5 * 2)
Scaled18 == { <<"Bin", "*", Lt(DD(FALSE, <<5>>, -1)), Lt(DD(FALSE, <<4>>, 0))>>, <<"Bin", "*", Lt(DD(FALSE, <<1,2,5>>, -2)), Lt(DD(FALSE, <<4>>, 0))>>,
              <<"Bin", "-", Lt(DD(FALSE, <<2,5>>, -1)), Lt(DD(FALSE, <<5>>, -1))>>, <<"Bin", "*", Lt(DD(TRUE, <<1,5>>, -1)), Lt(DD(FALSE, <<2>>, 0))>>,
              <<"Bin", "-", Lt(DD(FALSE, <<1,5>>, -1)), Lt(DD(FALSE, <<1,5>>, -1))>> }
GroupsC18 == { <<"unary", f>> : f \in {"abs", "ceil", "floor", "round", "roundBank", "toInt", "toFloat", "finite"} } \cup { <<"scaled">> }
             \cup { <<"law">>, <<"conv">>, <<"tilde">>, <<"bitscaled">> } \cup { <<"maxmin", a>> : a \in Small } \cup { <<"bit", a>> : a \in Ints18 }
GroupProgramsC18(g) ==
  CASE g[1] = "unary" -> { C(g[2], <<Lt(x)>>) : x \in Grid }
    [] g[1] = "scaled" -> { C(f, <<e>>) : f \in {"abs", "ceil", "floor", "round", "roundBank", "toInt", "toFloat", "finite"}, e \in Scaled18 }
    [] g[1] = "law" -> { <<"Bin", "===", C("toFloat", <<C("toString", <<Lt(x)>>)>>), Lt(x)>> : x \in Grid }
                       \cup { <<"Bin", "===", C("toFloat", <<C("toString", <<Id("f")>>)>>), Id("f")>> }
    [] g[1] = "conv" -> { C(f, <<S(t)>>) : f \in {"toInt", "toFloat", "finite"}, t \in Texts }
                        \cup { C(f, <<v>>) : f \in {"toInt", "toFloat", "finite", "toString"}, v \in {Id("nan"), Id("inf"), Id("ninf"), <<"Pre", "-", Id("inf")>>, KwL("null"), KwL("true"), Id("m"), Id("i"), Id("f")} }
    [] g[1] = "maxmin" -> { C(f, <<Lt(g[2])>>) : f \in {"max", "min"} }
                          \cup { C(f, <<Lt(g[2]), Lt(b)>>) : f \in {"max", "min"}, b \in Small }
                          \cup { C(f, <<Lt(g[2]), Lt(b), Lt(c)>>) : f \in {"max", "min"}, b \in Small, c \in Small }
                          \cup { C(f, <<Lt(b), Lt(g[2]), Lt(c), Lt(g[2]), Lt(b), Lt(c)>>) : f \in {"max", "min"}, b \in {DD(FALSE, <<1>>, 0), DD(TRUE, <<2,5>>, -1)}, c \in {DD(FALSE, <<1>>, 1), DD(FALSE, <<>>, 0)} }
                          \cup { <<"Call", Id(f), <<Lt(g[2]), <<"Arr", <<Lt(b), Lt(c)>>>>>>, TRUE>> : f \in {"max", "min"}, b \in {DD(FALSE, <<1>>, 0), DD(TRUE, <<2,5>>, -1)}, c \in {DD(FALSE, <<1>>, 1), DD(FALSE, <<>>, 0)} }
    [] g[1] = "bit" -> { <<"Bin", op, P(Lt(g[2])), P(Lt(b))>> : op \in {"&", "|", "^"}, b \in Ints18 }
    [] g[1] = "bitscaled" -> { <<"Bin", op, P(e), P(Lt(b))>> : op \in {"&", "|", "^"}, e \in Scaled18, b \in {DD(FALSE, <<7>>, 0), DD(FALSE, <<1,0,2,3>>, 0), DD(TRUE, <<1>>, 0)} }
                            \cup { <<"Bin", op, P(Lt(b)), P(e)>> : op \in {"&", "|", "^"}, e \in Scaled18, b \in {DD(FALSE, <<7>>, 0), DD(FALSE, <<1,0,2,3>>, 0)} }
                            \cup { <<"Bin", op, Id(x), P(Lt(b))>> : op \in {"&", "|", "^"}, x \in {"sc6", "sc1e3"}, b \in {DD(FALSE, <<1>>, 0), DD(FALSE, <<1,0,2,3>>, 0)} }
                            \cup { <<"Pre", "~", P(e)>> : e \in Scaled18 } \cup { <<"Pre", "~", Id(x)>> : x \in {"sc6", "sc1e3"} }
    [] g[1] = "tilde" -> { <<"Pre", "~", P(Lt(a))>> : a \in Ints18 } \cup { <<"Pre", "~", <<"Pre", "~", P(Lt(a))>>>> : a \in Ints18 }

\* ---- what the names say, on the specification
ArgD == Canon(IF tree[3][1][1] = "Pre" THEN TRUE ELSE FALSE,
              IF tree[3][1][1] = "Pre" THEN tree[3][1][3][3][2] ELSE tree[3][1][3][2],
              IF tree[3][1][1] = "Pre" THEN tree[3][1][3][3][3] ELSE tree[3][1][3][3])
IsUnary(f) == IsCase /\ tree[1] = "Call" /\ tree[2] = Id(f) /\ Len(tree[3]) = 1 /\ tree[3][1][1] \in {"Lit", "Pre"}
              /\ (tree[3][1][1] = "Lit" => tree[3][1][2] = "Num") /\ out[1] = "ok"
ResD == DecOf(out[2])
Within(a, b, w) == DCmp(DAbs(DAddExact(a, DNeg(b))), w) <= 0
NamesSay ==
  /\ IsUnary("abs") => ~ResD[1] /\ ResD[2] = ArgD[2] /\ ResD[3] = ArgD[3]
  /\ IsUnary("ceil") => DIsInt(ResD) /\ DCmp(ResD, ArgD) >= 0 /\ DCmp(DAddExact(ResD, DNeg(DOne)), ArgD) < 0
  /\ IsUnary("floor") => DIsInt(ResD) /\ DCmp(ResD, ArgD) <= 0 /\ DCmp(DAddExact(ResD, DOne), ArgD) > 0
  /\ IsUnary("roundBank") => DIsInt(ResD) /\ Within(ResD, ArgD, DHalf)
                             /\ (DCmp(DAbs(DAddExact(ResD, DNeg(ArgD))), DHalf) = 0 => (DIsZero(ResD) \/ ResD[3] > 0 \/ ResD[2][Len(ResD[2])] % 2 = 0))
  /\ (IsUnary("round") /\ out[2][1] = "num") => DIsInt(ResD) /\ Within(ResD, ArgD, DHalf)
  /\ IsUnary("toInt") => DIsInt(ResD) /\ DCmp(DAbs(ResD), DAbs(ArgD)) <= 0 /\ DCmp(DAbs(DAddExact(ArgD, DNeg(ResD))), DOne) < 0
=============================================================================
