---------------------------- MODULE MC_Eval_c03 ----------------------------
(* Program family of C03 for MC_EvalBase: totality and misuse *)
EXTENDS MC_EvalBase

\* ---- C03: totality and misuse
Vals3 == { N(1), ND(FALSE, <<1,5>>, -1), <<"Pre", "-", N(1)>>, N(0), S(<<97,98>>), S(<<>>), KwL("true"), KwL("null"), Id("np"), Id("m"), Id("sl"), Id("ss"),
           Id("st"), Id("t"), Id("rec"), Id("u"), Id("nan"), ND(FALSE, <<1>>, 6), <<"Arr", <<>>>>, Id("nb") }
Vals3s == { N(1), <<"Pre", "-", N(1)>>, S(<<97,98>>), S(<<40>>), KwL("null"), Id("sl"), Id("ss"), Id("t"), N(5), ND(FALSE, <<1>>, 6) }
Funs3 == BuiltinNames \ {"now", "toDay"}
AllBinOps == BinOps \cup {","}
Vals3x == Vals3 \cup {Id("im"), Id("ps"), Id("tm")}
Callees3 == Funs3 \cup {"rec", "fail", "failv", "add2", "cat", "crec", "cstr", "nl", "np", "i", "s", "m", "undefined", "st"}
GroupsC03 == { <<"call", f>> : f \in Callees3 } \cup { <<"bin", op>> : op \in AllBinOps } \cup { <<"misc">> } \cup { <<"alias">> } \cup { <<"grow">> }
             \cup { <<"call3", f>> : f \in {"mid", "lpad", "rpad", "replace", "date", "left", "max", "addDate", "roundCash"} }
GroupProgramsC03(g) ==
  CASE g[1] = "call" ->
         { <<"Call", Id(g[2]), <<>>, FALSE>> }
         \cup { <<"Call", Id(g[2]), <<a>>, sp>> : a \in Vals3, sp \in BOOLEAN }
         \cup { <<"Call", Id(g[2]), <<a, b>>, sp>> : a \in Vals3s, b \in Vals3s, sp \in BOOLEAN }
    [] g[1] = "call3" -> { <<"Call", Id(g[2]), <<a, b, c>>, FALSE>> : a \in Vals3s, b \in Vals3s, c \in Vals3s }
    [] g[1] = "bin" -> { <<"Bin", g[2], a, b>> : a \in Vals3x, b \in Vals3x }
    \* a local bound to the data map itself (or to an array holding it) makes the map reachable from itself; whatever is
    \* done with such a value afterwards, evaluation still ends in a value or an error
    [] g[1] = "alias" ->
         LET Holders == { KwL("this"), <<"Arr", <<KwL("this")>>>>, <<"Arr", <<N(1), <<"Arr", <<KwL("this")>>>>>>>> }
             SeqA(h, e) == <<"Bin", ",", <<"Bin", "=", Id("$a"), h>>, e>>
         IN { SeqA(h, <<"Call", Id(f), <<Id("$a")>>, FALSE>>) : h \in Holders, f \in Funs3 }
            \cup { SeqA(h, <<"Call", Id(f), <<KwL("this")>>, sp>>) : h \in Holders, f \in Funs3, sp \in BOOLEAN }
            \cup { SeqA(h, <<"Call", Id(f), <<Id("$a"), N(1)>>, FALSE>>) : h \in Holders, f \in {"lpad", "find", "join", "includes", "left", "max", "cat", "rec"} }
            \cup { SeqA(h, <<"Bin", op, Id("$a"), b>>) : h \in Holders, op \in AllBinOps \ {","}, b \in {S(<<97>>), N(1), Id("$a"), KwL("this")} }
            \cup { SeqA(h, <<"Bin", op, S(<<97>>), Id("$a")>>) : h \in Holders, op \in {"+", "==", "<"} }
            \cup { SeqA(h, <<"Pre", op, Id("$a")>>) : h \in Holders, op \in PrefixOps }
            \cup { SeqA(h, e) : h \in Holders, e \in { <<"Typeof", Id("$a")>>, <<"Sel", <<"Sel", Id("$a"), "$a", FALSE>>, "x", FALSE>>, <<"Arr", <<Id("$a"), KwL("this")>>>>,
                                                        <<"Cond", Id("$a"), Id("$a"), N(1)>> } }
    \* evaluation terminates: forty chained self-applications keep the size of the value bounded (numbers are rounded to 34
    \* digits), so a short formula cannot ask for unbounded work
    [] g[1] = "grow" ->
         LET RECURSIVE Chain(_, _, _)
             Chain(start, step, n) == IF n = 0 THEN <<"Bin", "=", Id("$a"), start>>
                                      ELSE <<"Bin", ",", Chain(start, step, n - 1), <<"Bin", "=", Id("$a"), step>>>>
             Near1 == <<"Lit", "Num", <<FALSE, <<1,0,0,0,0,0,0,0,0,0,1>>, -10>>>>
         IN { <<"Bin", ",", Chain(Near1, <<"Bin", "*", Id("$a"), Id("$a")>>, 40), Id("$a")>>,
              <<"Bin", ",", Chain(Near1, <<"Bin", "+", <<"Bin", "*", Id("$a"), Id("$a")>>, <<"Bin", "/", Id("$a"), N(3)>>>>, 12), <<"Bin", ">", Id("$a"), N(1)>>>>,
              <<"Bin", ",", Chain(N(3), <<"Bin", "/", Id("$a"), Near1>>, 40), <<"Bin", "<", Id("$a"), N(3)>>>> }
    [] g[1] = "misc" ->
         { <<"Pre", op, a>> : op \in PrefixOps, a \in Vals3x }
         \cup { <<"Typeof", a>> : a \in Vals3 }
         \cup { <<"Sel", a, k, as>> : a \in Vals3x \cup {KwL("this")}, k \in {"A", "c", "Q", "k", "z", "x"}, as \in BOOLEAN }
         \cup { <<"Call", <<"Sel", Id(o), k, FALSE>>, <<N(1)>>, FALSE>> : o \in {"m", "st", "np", "undefined", "s"}, k \in {"k", "A", "zz"} }
         \cup { <<"Call", P(Id("rec")), <<N(1)>>, FALSE>>, <<"Call", <<"Call", Id("rec"), <<Id("rec")>>, FALSE>>, <<N(1)>>, FALSE>>,
                <<"Call", N(1), <<>>, FALSE>>, <<"Call", KwL("null"), <<>>, FALSE>>, <<"Call", KwL("this"), <<>>, FALSE>> }
         \cup { <<"Bin", "=", a, N(1)>> : a \in Vals3 }
         \* a value of every kind as the *final* value of the evaluation (the conversion handed back to the caller), bare and selected
         \cup { e : e \in Vals3x } \cup { P(e) : e \in Vals3x } \cup { <<"Cond", c, e, N(0)>> : c \in {Id("b"), N(0)}, e \in Vals3x }
         \cup { <<"Bin", op, N(0), e>> : op \in {"||", "??", ","}, e \in Vals3x } \cup { <<"Bin", "&&", N(1), e>> : e \in Vals3x }
=============================================================================
