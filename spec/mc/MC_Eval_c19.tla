---------------------------- MODULE MC_Eval_c19 ----------------------------
(* Program family of C19 for MC_EvalBase (process-local zone UTC): date with *)
(* months and days far outside their ranges, the civil fields and the Unix   *)
(* milliseconds of the result, addDate over a grid of shifts, useTimezone,   *)
(* timeFormat.  Invariants check the calendar itself: CivilFromDays inverts  *)
(* DaysFromCivil, consecutive days, weekday steps.                           *)
EXTENDS MC_EvalBase

I(n) == IF n < 0 THEN <<"Pre", "-", N(-n)>> ELSE N(n)
C(f, as) == <<"Call", Id(f), as, FALSE>>
Years == {1, 1600, 1900, 1970, 2000, 2023, 2024, 9999}
Months == {-13, -12, -1, 0, 1, 2, 3, 6, 11, 12, 13, 14, 24, 25, 26}
DaysS == {-40, -1, 0, 1, 15, 28, 29, 30, 31, 32, 59, 60, 70, 366, 367}
Dt(y, m, dy) == C("date", <<I(y), I(m), I(dy)>>)
FieldsArr(t) == <<"Arr", <<C("year", <<t>>), C("month", <<t>>), C("day", <<t>>), C("weekDay", <<t>>), C("hour", <<t>>), C("minute", <<t>>), C("second", <<t>>), C("millSecond", <<t>>)>>>>
Shifts == {-400, -13, -1, 0, 1, 12, 31}
SA == <<65,115,105,97,47,83,104,97,110,103,104,97,105>>
PX == <<65,109,101,114,105,99,97,47,80,104,111,101,110,105,120>>
Layouts == { <<50,48,48,54,45,48,49,45,48,50>>, <<50,48,48,54,45,48,49,45,48,50,32,49,53,58,48,52,58,48,53>>, <<48,50,47,48,49,47,50,48,48,54>>,
             <<49,53,58,48,52>>, <<50,48,48,54,48,49,48,50,84,49,53,48,52,48,53>> }

GroupsC19 == { <<"date", y>> : y \in Years } \cup { <<"add", y>> : y \in {1970, 2024, 1900} } \cup { <<"zone">>, <<"fmt">> }
GroupProgramsC19(g) ==
  CASE g[1] = "date" -> { Dt(g[2], m, dq) : m \in Months, dq \in DaysS } \cup { FieldsArr(Dt(g[2], m, dq)) : m \in Months, dq \in DaysS }
    [] g[1] = "add" -> { FieldsArr(C("addDate", <<Dt(g[2], m, dq), I(dy), I(dm), I(dd)>>)) :
                            m \in {1, 2, 12}, dq \in {1, 29, 31}, dy \in {-1, 0, 1, 4}, dm \in Shifts, dd \in Shifts }
    [] g[1] = "zone" ->
         { FieldsArr(C("useTimezone", <<Dt(y, m, dq), S(z)>>)) : y \in {1995, 2024}, m \in {1, 7, 12}, dq \in {1, 31}, z \in {SA, PX, <<85,84,67>>} }
         \cup { <<"Bin", "===", C("millSecond", <<C("useTimezone", <<Dt(y, 3, 10), S(z)>>)>>), C("millSecond", <<Dt(y, 3, 10)>>)>> : y \in {1995, 2024}, z \in {SA, PX} }
         \cup { C("useTimezone", <<Dt(2024, 1, 1), S(z)>>) : z \in UnknownZones \cup {SA} }
         \cup { FieldsArr(C("addDate", <<C("useTimezone", <<Dt(2024, 1, 31), S(SA)>>), I(0), I(1), I(0)>>)), FieldsArr(Id("t")) }
    [] g[1] = "fmt" -> { C("timeFormat", <<C("addDate", <<Dt(y, m, dq), I(0), I(0), I(0)>>), S(l)>>) : y \in {1, 1970, 2024, 9999}, m \in {1, 12}, dq \in {1, 31}, l \in Layouts }
                       \cup { C("timeFormat", <<C("useTimezone", <<Dt(2024, 2, 29), S(SA)>>), S(l)>>) : l \in Layouts }

\* ---- the calendar itself
CalendarSane ==
  /\ \A y \in {1, 4, 100, 400, 1600, 1900, 1970, 2000, 2023, 2024, 9999} : \A m \in 1..12 : \A dd \in {1, 28, DaysInMonth(y, m)} :
        CivilFromDays(DaysFromCivil(y, m, dd)) = <<y, m, dd>>
  /\ \A y \in {1899, 1900, 1999, 2000, 2023, 2024} : \A m \in 1..12 :
        DaysFromCivil(IF m = 12 THEN y + 1 ELSE y, IF m = 12 THEN 1 ELSE m + 1, 1) = DaysFromCivil(y, m, DaysInMonth(y, m)) + 1
  /\ DaysFromCivil(1970, 1, 1) = 0 /\ WeekDay(0) = 4 /\ WeekDay(DaysFromCivil(2024, 9, 29)) = 0 /\ WeekDay(DaysFromCivil(2000, 1, 1)) = 6
  /\ DaysFromCivil(2000, 3, 1) - DaysFromCivil(2000, 2, 28) = 2 /\ DaysFromCivil(1900, 3, 1) - DaysFromCivil(1900, 2, 28) = 1
=============================================================================
