----------------------------- MODULE MC_Runner -----------------------------
(* All operation histories up to length N on up to two runners sharing two *)
(* caller maps (C20, and C07/C08 for consecutive evaluations).  A state is *)
(* a history: hist records every operation with its result and the        *)
(* projected abstract state after it; the dump is replayed step by step.   *)
EXTENDS FRunnerPool, TLC
CONSTANTS N, Runners

VARIABLES heap, run, hist
vars == <<heap, run, hist>>

Init == /\ heap = InitHeap
        /\ run = InitRun(Runners)
        /\ hist = <<>>

Step(op, res, h2, rn2) ==
  /\ heap' = h2 /\ run' = rn2
  /\ hist' = Append(hist, [op |-> op, res |-> res, st |-> Proj(h2, rn2, Runners)])

SetThisA(r, id) == LET x == DoSetThis(heap, run[r], id) IN
                   Step(<<"SetThis", r, id>>, <<"none">>, x[1], [run EXCEPT ![r] = x[2]])
SetThisValueA(r, k) == LET x == DoSetThisValue(heap, run[r], k, Norm(V5)) IN
                   Step(<<"SetThisValue", r, k, V5>>, <<"none">>, x[1], [run EXCEPT ![r] = x[2]])
ResolveA(r, f) == LET x == DoResolve(heap, run[r], Formulas[f]) IN
                   /\ x[1][1] # "unspec"
                   /\ Step(<<"Resolve", r, f>>, x[1], x[2], [run EXCEPT ![r] = x[3]])
SetA(r, k) == Step(<<"Set", r, k, V7>>, <<"none">>, heap, [run EXCEPT ![r] = DoSet(run[r], k, Norm(V7))])
GetA(r, k) == Step(<<"Get", r, k>>, <<"val", DoGet(run[r], k)>>, heap, run)

Next == /\ Len(hist) < N
        /\ \E r \in Runners :
             \/ \E id \in MapIds \cup {"nil"} : SetThisA(r, id)
             \/ \E k \in Keys : SetThisValueA(r, k)
             \/ \E f \in 1..Len(Formulas) : ResolveA(r, f)
             \/ \E k \in AuxKeys : SetA(r, k)
             \/ \E k \in AuxKeys : GetA(r, k)
Spec == Init /\ [][Next]_vars

\* ---- properties of the model (C20, C07)
NonLocal(m) == [k \in (DOMAIN m) \ LocalNames |-> m[k]]
\* evaluation never changes a non-"$" entry of any caller map (C07), and never touches aux (C20)
FrameAct == (\E r \in Runners : Len(hist') = Len(hist) + 1 /\ hist'[Len(hist')].op[1] = "Resolve")
            => /\ \A i \in MapIds : NonLocal(heap'[i]) = NonLocal(heap[i])
               /\ \A r \in Runners : run'[r].aux = run[r].aux
Frame == [][FrameAct]_vars
\* the auxiliary store is invisible to formulas: Set/Get never change any data map
AuxAct == (Len(hist') = Len(hist) + 1 /\ hist'[Len(hist')].op[1] \in {"Set", "Get"})
          => heap' = heap /\ \A r \in Runners : run'[r].this = run[r].this
AuxInvisible == [][AuxAct]_vars
\* replacing the map discards earlier locals unless the new map carries them
ReplaceAct == \A r \in Runners, id \in MapIds :
                 (Len(hist') = Len(hist) + 1 /\ hist'[Len(hist')].op = <<"SetThis", r, id>>)
                 => CurMap(heap', run'[r]) = heap[id]
ReplaceDiscardsLocals == [][ReplaceAct]_vars
\* setting an entry on a runner without a map creates one
CreateAct == \A r \in Runners, k \in Keys :
                 (Len(hist') = Len(hist) + 1 /\ hist'[Len(hist')].op[1] = "SetThisValue" /\ hist'[Len(hist')].op[2] = r
                  /\ hist'[Len(hist')].op[3] = k /\ run[r].this[1] = "unset")
                 => run'[r].this[1] = "own" /\ DOMAIN run'[r].this[2] = {k}
SetEntryCreatesMap == [][CreateAct]_vars
=============================================================================
