SPECIFICATION Spec
CONSTANT Groups <- GroupsC05
CONSTANT GroupPrograms <- GroupProgramsC05
CONSTANT DataIds = {"D5"}
INVARIANT Reparse
INVARIANT EvalTotal

INVARIANT Frame
CHECK_DEADLOCK FALSE
