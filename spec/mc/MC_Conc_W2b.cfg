SPECIFICATION Spec
CONSTANT Workloads <- W2b
INVARIANT SeqEquivalent
INVARIANT NoInterference
PROPERTY SharedReadOnly
CHECK_DEADLOCK FALSE
