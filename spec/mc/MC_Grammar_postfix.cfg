SPECIFICATION Spec
CONSTANT K = 7
CONSTANT Alphabet <- PostfixAlphabet
INVARIANT GrammarSound
INVARIANT ParseTotal
INVARIANT EmptyRejected
CHECK_DEADLOCK FALSE
