SPECIFICATION Spec
CONSTANT K = 7
CONSTANT Alphabet <- PostfixAlphabet
INVARIANT GrammarSound
INVARIANT ParseTotal
INVARIANT EmptyRejected
INVARIANT RangesNest
INVARIANT SubtextReparses
CHECK_DEADLOCK FALSE
