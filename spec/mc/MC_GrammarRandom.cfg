SPECIFICATION Spec
CONSTANT Steps = 2000
CONSTANT MaxTokens = 60
CONSTANT Mutate = FALSE
INVARIANT Complete
CHECK_DEADLOCK FALSE
