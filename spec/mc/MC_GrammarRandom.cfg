SPECIFICATION Spec
CONSTANT Steps = 2000
CONSTANT MaxTokens = 60
INVARIANT Complete
CHECK_DEADLOCK FALSE
