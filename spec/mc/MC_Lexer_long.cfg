SPECIFICATION Spec
CONSTANT K = 5
CONSTANT Units <- UnitsLong
CONSTANT Prefix <- Bracket
CONSTANT Suffix <- Unbracket
INVARIANT LexTiling
INVARIANT LexLongest
INVARIANT LexProgress
INVARIANT ParseTotal
INVARIANT GrammarSoundOnLexed
CHECK_DEADLOCK FALSE
