SPECIFICATION Spec
CONSTANT Groups <- GroupsC04
CONSTANT GroupPrograms <- GroupProgramsC04
CONSTANT DataIds = {"D5"}
INVARIANT Reparse
INVARIANT EvalTotal
INVARIANT OracleSane
CHECK_DEADLOCK FALSE
