------------------------------ MODULE FChars ------------------------------
(***************************************************************************)
(* Bytes, UTF-8 decoding and the character classes of the formula          *)
(* language.  A text is a sequence of bytes (0..255), indexed from 1.      *)
(***************************************************************************)
EXTENDS Integers, Sequences, ES5Tables

B(t, p) == IF p >= 1 /\ p <= Len(t) THEN t[p] ELSE -1

Cont(b) == b >= 128 /\ b <= 191

\* Decode(t, p) = <<code point, number of bytes>>; an invalid or truncated
\* sequence is one byte denoting U+FFFD (the convention of Go's utf8 package)
Decode(t, p) ==
  LET b0 == B(t, p)  b1 == B(t, p + 1)  b2 == B(t, p + 2)  b3 == B(t, p + 3) IN
  IF b0 < 128 THEN <<b0, 1>>
  ELSE IF b0 >= 194 /\ b0 <= 223 /\ Cont(b1) THEN <<(b0 - 192) * 64 + (b1 - 128), 2>>
  ELSE IF b0 >= 224 /\ b0 <= 239 /\ Cont(b1) /\ Cont(b2)
          /\ (b0 # 224 \/ b1 >= 160) /\ (b0 # 237 \/ b1 <= 159)
       THEN <<(b0 - 224) * 4096 + (b1 - 128) * 64 + (b2 - 128), 3>>
  ELSE IF b0 >= 240 /\ b0 <= 244 /\ Cont(b1) /\ Cont(b2) /\ Cont(b3)
          /\ (b0 # 240 \/ b1 >= 144) /\ (b0 # 244 \/ b1 <= 143)
       THEN <<(b0 - 240) * 262144 + (b1 - 128) * 4096 + (b2 - 128) * 64 + (b3 - 128), 4>>
  ELSE <<65533, 1>>

\* UTF-8 encoding of a code point (surrogates excluded by the callers)
Encode(c) ==
  IF c < 128 THEN <<c>>
  ELSE IF c < 2048 THEN <<192 + (c \div 64), 128 + (c % 64)>>
  ELSE IF c < 65536 THEN <<224 + (c \div 4096), 128 + ((c \div 64) % 64), 128 + (c % 64)>>
  ELSE <<240 + (c \div 262144), 128 + ((c \div 4096) % 64), 128 + ((c \div 64) % 64), 128 + (c % 64)>>

IsSurrogate(c) == c >= 55296 /\ c <= 57343

\* ECMAScript WhiteSpace and LineTerminator (plus U+0085) sets
IsWS(c) == c \in {32, 9, 11, 12, 160, 5760, 8239, 8287, 12288, 65279} \/ (c >= 8192 /\ c <= 8203)
IsLB(c) == c \in {10, 13, 8232, 8233, 133}

IsDigit(c) == c >= 48 /\ c <= 57
IsHex(c) == IsDigit(c) \/ (c >= 65 /\ c <= 70) \/ (c >= 97 /\ c <= 102)
HexVal(c) == IF IsDigit(c) THEN c - 48 ELSE IF c >= 97 THEN c - 87 ELSE c - 55

InRanges(c, tab) == \E i \in 1..Len(tab) : tab[i][1] <= c /\ c <= tab[i][2]

IsAsciiLetter(c) == (c >= 65 /\ c <= 90) \/ (c >= 97 /\ c <= 122)
IsIdStart(c) == IsAsciiLetter(c) \/ c = 36 \/ c = 95 \/ (c > 127 /\ InRanges(c, ES5Start))
IsIdPart(c)  == IsAsciiLetter(c) \/ IsDigit(c) \/ c = 36 \/ c = 95 \/ (c > 127 /\ InRanges(c, ES5Part))

\* class of a code point, for the exhaustive code-point check (C14)
ClassOf(c) == <<IsWS(c), IsLB(c), IsIdStart(c), IsIdPart(c)>>

-----------------------------------------------------------------------------
(* Byte sequences as TLC strings (names and literal texts inside trees):   *)
(* printable ASCII other than "?" stands for itself, every other byte b is *)
(* written "?" followed by two hex digits.  Injective; the driver applies  *)
(* the same mapping to what it observes.                                   *)
HexDigits == <<"0","1","2","3","4","5","6","7","8","9","a","b","c","d","e","f">>
Printable ==
  <<" ","!","\"","#","$","%","&","'","(",")","*","+",",","-",".","/",
    "0","1","2","3","4","5","6","7","8","9",":",";","<","=",">","?",
    "@","A","B","C","D","E","F","G","H","I","J","K","L","M","N","O",
    "P","Q","R","S","T","U","V","W","X","Y","Z","[","\\","]","^","_",
    "`","a","b","c","d","e","f","g","h","i","j","k","l","m","n","o",
    "p","q","r","s","t","u","v","w","x","y","z","{","|","}","~">>
ChrEsc(b) == IF b >= 32 /\ b <= 126 /\ b # 63 THEN Printable[b - 31]
             ELSE "?" \o HexDigits[(b \div 16) + 1] \o HexDigits[(b % 16) + 1]
RECURSIVE BStr(_, _)
BStr(bs, i) == IF i > Len(bs) THEN "" ELSE ChrEsc(bs[i]) \o BStr(bs, i + 1)
BytesToStr(bs) == BStr(bs, 1)
=============================================================================
