------------------------------- MODULE FLines -------------------------------
(* Lines and columns by direct count (C15).  A line break is LF, CR, CRLF   *)
(* (one break, also at the very end of the text), U+2028, U+2029 or U+0085. *)
(* Offsets are 0-based byte offsets, lines 0-based, columns in bytes.        *)
EXTENDS FChars

\* LineStartsFrom(t, p, cur): 0-based offsets at which lines start, scanning from index p (1-based)
RECURSIVE LineStartsFrom(_, _)
LineStartsFrom(t, p) ==
  IF p > Len(t) THEN <<>>
  ELSE LET d == Decode(t, p) IN
       IF d[1] = 13 /\ B(t, p + 1) = 10 THEN <<p + 1>> \o LineStartsFrom(t, p + 2)       \* CRLF: next line starts after both
       ELSE IF IsLB(d[1]) THEN <<p + d[2] - 1>> \o LineStartsFrom(t, p + d[2])
       ELSE LineStartsFrom(t, p + d[2])
LineStarts(t) == <<0>> \o LineStartsFrom(t, 1)

\* line = index of the last line start <= off ; column = off - that start
LineCol(t, off) ==
  LET ls == LineStarts(t)
      l == CHOOSE i \in 1..Len(ls) : ls[i] <= off /\ (i = Len(ls) \/ ls[i + 1] > off)
  IN <<l - 1, off - ls[l]>>
=============================================================================
