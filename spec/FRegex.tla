------------------------------- MODULE FRegex -------------------------------
(* A regular-expression oracle independent of any regexp library (C17):     *)
(* regular expressions as trees, their concrete syntax (ReRender) and       *)
(* matching by sets of end positions.  Subjects are ASCII byte sequences    *)
(* without line feeds, so "." is any byte.                                  *)
(*  <<"chr", b>> <<"any">> <<"cls", set, negated>> <<"cat", r, s>>         *)
(*  <<"alt", r, s>> <<"star", r>> <<"plus", r>> <<"opt", r>> <<"eps">>     *)
(*  <<"rep", r, n, m>> counted repetition r{n} / r{n,m} (n <= m <= 9)       *)
(* A pattern is <<anchoredStart, tree, anchoredEnd>>; the builtin reports   *)
(* whether the subject *contains* a match.                                  *)
EXTENDS Integers, Sequences, FiniteSets

RECURSIVE ReEnds(_, _, _), ReStar(_, _, _, _), RePow(_, _, _, _)
\* positions (1-based index of the next unread byte) at which a match of r starting at i can end
ReEnds(r, s, i) ==
  CASE r[1] = "eps" -> {i}
    [] r[1] = "chr" -> IF i <= Len(s) /\ s[i] = r[2] THEN {i + 1} ELSE {}
    [] r[1] = "any" -> IF i <= Len(s) THEN {i + 1} ELSE {}
    [] r[1] = "cls" -> IF i <= Len(s) /\ ((s[i] \in r[2]) # r[3]) THEN {i + 1} ELSE {}
    [] r[1] = "cat" -> UNION { ReEnds(r[3], s, j) : j \in ReEnds(r[2], s, i) }
    [] r[1] = "alt" -> ReEnds(r[2], s, i) \cup ReEnds(r[3], s, i)
    [] r[1] = "opt" -> {i} \cup ReEnds(r[2], s, i)
    [] r[1] = "star" -> ReStar(r[2], s, {i}, {i})
    [] r[1] = "plus" -> UNION { ReStar(r[2], s, {j}, {j}) : j \in ReEnds(r[2], s, i) }
    [] r[1] = "rep" -> UNION { RePow(r[2], s, {i}, k) : k \in r[3]..r[4] }
\* end positions after exactly n repetitions of r started at the positions in from
RePow(r, s, from, n) == IF n = 0 THEN from ELSE RePow(r, s, UNION { ReEnds(r, s, j) : j \in from }, n - 1)
ReStar(r, s, frontier, acc) ==
  LET new == (UNION { ReEnds(r, s, j) : j \in frontier }) \ acc IN
  IF new = {} THEN acc ELSE ReStar(r, s, new, acc \cup new)

ReMatch(p, s) ==
  \E i \in (IF p[1] THEN {1} ELSE 1..(Len(s) + 1)) :
     \E j \in ReEnds(p[2], s, i) : p[3] => j = Len(s) + 1

\* concrete syntax; every composite is parenthesised, so no precedence question arises
RECURSIVE ReText(_)
ReText(r) ==
  CASE r[1] = "eps" -> <<40, 41>>
    [] r[1] = "chr" -> <<r[2]>>
    [] r[1] = "any" -> <<46>>
    [] r[1] = "cls" -> <<91>> \o (IF r[3] THEN <<94>> ELSE <<>>) \o r[4] \o <<93>>       \* r[4]: the class as written
    [] r[1] = "cat" -> ReText(r[2]) \o ReText(r[3])
    [] r[1] = "alt" -> <<40>> \o ReText(r[2]) \o <<124>> \o ReText(r[3]) \o <<41>>
    [] r[1] = "opt" -> <<40>> \o ReText(r[2]) \o <<41, 63>>
    [] r[1] = "star" -> <<40>> \o ReText(r[2]) \o <<41, 42>>
    [] r[1] = "plus" -> <<40>> \o ReText(r[2]) \o <<41, 43>>
    \* a counted single character is written bare (a{2}), so the braces are the only operator of the pattern
    [] r[1] = "rep" -> (IF r[2][1] = "chr" THEN ReText(r[2]) ELSE <<40>> \o ReText(r[2]) \o <<41>>)
                       \o <<123, 48 + r[3]>> \o (IF r[4] # r[3] THEN <<44, 48 + r[4]>> ELSE <<>>) \o <<125>>
ReRender(p) == (IF p[1] THEN <<94>> ELSE <<>>) \o ReText(p[2]) \o (IF p[3] THEN <<36>> ELSE <<>>)

A == <<"chr", 97>>
Bb == <<"chr", 98>>
Cc == <<"chr", 99>>
ClsAB == <<"cls", {97, 98}, FALSE, <<97, 98>>>>
ClsNotA == <<"cls", {97}, TRUE, <<97>>>>
ClsAC == <<"cls", {97, 98, 99}, FALSE, <<97, 45, 99>>>>      \* [a-c]
ReTrees == { A, <<"any">>, ClsAB, ClsNotA, ClsAC, <<"cat", A, Bb>>, <<"cat", A, <<"cat", <<"any">>, Bb>>>>,
             <<"alt", A, Bb>>, <<"alt", <<"cat", A, Bb>>, Cc>>, <<"star", A>>, <<"cat", A, <<"star", Bb>>>>,
             <<"plus", <<"cat", A, Bb>>>>, <<"opt", A>>, <<"cat", <<"opt", A>>, Bb>>, <<"cat", <<"plus", ClsAB>>, Cc>>,
             <<"star", <<"alt", A, <<"cat", Bb, Cc>>>>>>, <<"cat", <<"star", <<"any">>>>, Cc>>, <<"cat", A, <<"cat", <<"star", ClsNotA>>, A>>>>,
             <<"rep", A, 2, 2>>, <<"cat", A, <<"rep", Bb, 2, 2>>>>, <<"rep", Bb, 1, 2>>, <<"rep", <<"cat", A, Bb>>, 2, 2>>, <<"cat", <<"rep", Bb, 2, 3>>, Cc>> }
RePool == { <<s, t, e>> : s \in BOOLEAN, t \in ReTrees, e \in BOOLEAN }
=============================================================================
