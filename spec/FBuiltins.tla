----------------------------- MODULE FBuiltins -----------------------------
(***************************************************************************)
(* Calling functions: signatures, arity and conversion rules (C11), and    *)
(* the meaning of the builtins (C17 strings and lists, C18 numbers).       *)
(*                                                                         *)
(* ApplyFunc(name, args, spread, log) =                                    *)
(*    <<"v", value, log'>>  the call succeeds with value                   *)
(*    <<"e", log'>>         evaluation fails with an error                 *)
(*    <<"u">>               not pinned by any property (total, no panic)   *)
(* log is the host-call log: recording host functions append to it.        *)
(* A result <<"oneof", v1, v2>> means either value is correct.             *)
(***************************************************************************)
EXTENDS FValues, FRegex, FCalendar, TLC

\* names a formula cannot use for data: a bare name denotes the builtin if there is one
BuiltinNames == {"now", "toDay", "date", "addDate", "year", "month", "day", "hour", "minute", "second",
                 "millSecond", "weekDay", "timeFormat", "useTimezone",
                 "abs", "ceil", "exp", "floor", "ln", "log", "max", "min", "round", "roundBank", "roundCash",
                 "sqrt", "finite",
                 "startWith", "endWith", "contains", "find", "includes", "left", "right", "len", "lower",
                 "upper", "lpad", "rpad", "mid", "replace", "trim", "regexp",
                 "mapToArr", "join", "toString", "toInt", "toFloat"}

\* the "$"-prefixed names used by the models (TLC strings are atomic: the prefix test is a table)
LocalNames == {"$", "$a", "$b", "$c", "$x", "$y", "$l", "$t", "$abs"}

\* parameter kinds: "str" "int" "num" (decimal) "any" "time" "strs" ([]string) "maps"
\* Sig(name) = <<params, variadic>>; variadic: the last parameter kind repeats (0 or more)
Sig(n) ==
  CASE n \in {"now", "toDay"} -> << <<>>, FALSE >>
    [] n = "date" -> << <<"int", "int", "int">>, FALSE >>
    [] n = "addDate" -> << <<"time", "int", "int", "int">>, FALSE >>
    [] n \in {"year", "month", "day", "hour", "minute", "second", "millSecond", "weekDay"} -> << <<"time">>, FALSE >>
    [] n \in {"timeFormat", "useTimezone"} -> << <<"time", "str">>, FALSE >>
    [] n \in {"abs", "ceil", "exp", "floor", "ln", "log", "round", "roundBank", "sqrt"} -> << <<"num">>, FALSE >>
    [] n = "roundCash" -> << <<"num", "num">>, FALSE >>
    [] n \in {"max", "min"} -> << <<"num">>, TRUE >>
    [] n \in {"finite", "toString", "toInt", "toFloat"} -> << <<"any">>, FALSE >>
    [] n \in {"startWith", "endWith", "contains", "find"} -> << <<"str", "str">>, FALSE >>
    [] n \in {"left", "right"} -> << <<"str", "int">>, FALSE >>
    [] n \in {"len", "lower", "upper", "trim"} -> << <<"str">>, FALSE >>
    [] n \in {"lpad", "rpad"} -> << <<"str", "str", "int">>, FALSE >>
    [] n = "mid" -> << <<"str", "int", "int">>, FALSE >>
    [] n = "replace" -> << <<"str", "str", "str">>, FALSE >>
    [] n = "regexp" -> << <<"str", "str">>, FALSE >>
    [] n = "includes" -> << <<"strs", "str">>, FALSE >>
    [] n = "join" -> << <<"strs", "str">>, FALSE >>
    [] n = "mapToArr" -> << <<"maps", "str">>, FALSE >>
    \* host functions of the conformance harness (placed in the data map by the driver)
    [] n \in {"rec", "fail", "failv", "id", "crec"} -> << <<"any">>, FALSE >>          \* crec: func(ctx, x) - the context is injected, not an argument
    [] n = "cstr" -> << <<"stringer">>, FALSE >>          \* func(ctx, fmt.Stringer): strings, booleans, arrays and maps do not satisfy the interface
    [] n = "recs" -> << <<"any">>, TRUE >>                \* variadic recorder
    [] n = "add2" -> << <<"int", "int">>, FALSE >>
    [] n = "cat" -> << <<"str">>, TRUE >>

\* ---------------------------------------------------------------- conversion of one argument (C11)
\* <<"ok", natural>>: converted; natural = the argument already has the parameter's own kind
\* <<"err">>: cannot be converted -> the function is not called
\* <<"u">>: a conversion the statements do not pin
Conv(kind, v) ==
  CASE kind = "any" -> <<"ok", TRUE>>
    [] kind = "str" -> IF v[1] = "str" THEN <<"ok", TRUE>> ELSE <<"ok", FALSE>>      \* anything formats
    [] kind = "int" -> IF v[1] = "num" THEN <<"ok", TRUE>>
                       ELSE IF v[1] \in {"nan", "inf"} THEN <<"u">> ELSE <<"err">>
    [] kind = "num" -> IF v[1] \in {"num", "nan", "inf"} THEN <<"ok", v[1] = "num">>
                       ELSE IF v[1] = "null" THEN <<"u">> ELSE <<"err">>
    [] kind = "time" -> IF v[1] = "time" THEN <<"ok", TRUE>> ELSE IF v[1] = "null" THEN <<"u">> ELSE <<"err">>
    [] kind = "strs" -> IF v[1] = "arr" THEN <<"ok", \A i \in 1..Len(v[2]) : v[2][i][1] = "str">>
                        ELSE IF v[1] = "null" THEN <<"u">> ELSE <<"err">>
    \* fmt.Stringer: numbers (*decimal.Big) and times have a String method, null becomes a nil interface (open); strings,
    \* booleans, arrays and maps do not satisfy the interface
    [] kind = "stringer" -> IF v[1] \in {"str", "bool", "arr", "map"} THEN <<"err">> ELSE <<"u">>
    [] kind = "maps" -> IF v[1] = "arr" THEN <<"u">> ELSE IF v[1] = "null" THEN <<"u">> ELSE <<"err">>

\* truncation toward zero of a number used as a Go int; pinned below 2^53
IntArg(v) == DTrunc(DecOf(v))
IntArgPinned(v) == Len(DTrunc(DecOf(v))[2]) + DTrunc(DecOf(v))[3] <= 15
\* small TLC integer of an int argument (only used after a magnitude test)
SmallInt(v) == LET d == IntArg(v) IN (IF d[1] THEN -1 ELSE 1) * IntOfNat(CoefAt(d, 0))
IsTiny(v) == LET d == IntArg(v) IN Len(d[2]) + d[3] <= 7      \* |n| < 10^7

\* ---------------------------------------------------------------- byte-string operations (C17)
IsPrefixB(t, s) == Len(t) <= Len(s) /\ \A i \in 1..Len(t) : s[i] = t[i]
IsSuffixB(t, s) == Len(t) <= Len(s) /\ \A i \in 1..Len(t) : s[Len(s) - Len(t) + i] = t[i]
OccursAt(t, s, p) == p + Len(t) - 1 <= Len(s) /\ \A i \in 1..Len(t) : s[p + i - 1] = t[i]   \* p 1-based
Occs(t, s) == {p \in 1..(Len(s) + 1) : OccursAt(t, s, p)}
ContainsB(t, s) == Occs(t, s) # {}
FindB(t, s) == IF Occs(t, s) = {} THEN -1 ELSE (CHOOSE p \in Occs(t, s) : \A q \in Occs(t, s) : p <= q) - 1
MinN(a, b) == IF a < b THEN a ELSE b
MaxN(a, b) == IF a > b THEN a ELSE b
LeftB(s, n) == SubSeq(s, 1, MinN(n, Len(s)))
RightB(s, n) == SubSeq(s, Len(s) - MinN(n, Len(s)) + 1, Len(s))
MidB(s, i, j) == LET a == MaxN(i, 0)  b == MinN(j, Len(s)) IN IF a >= b THEN <<>> ELSE SubSeq(s, a + 1, b)
RECURSIVE ReplaceB(_, _, _, _)
ReplaceB(s, old, new, p) ==      \* every non-overlapping occurrence, left to right; old non-empty
  IF p > Len(s) THEN <<>>
  ELSE IF OccursAt(old, s, p) THEN new \o ReplaceB(s, old, new, p + Len(old))
  ELSE <<s[p]>> \o ReplaceB(s, old, new, p + 1)
AsciiWS == {9, 10, 11, 12, 13, 32}
RECURSIVE TrimL(_), TrimR(_)
TrimL(s) == IF Len(s) > 0 /\ s[1] \in AsciiWS THEN TrimL(Tail(s)) ELSE s
TrimR(s) == IF Len(s) > 0 /\ s[Len(s)] \in AsciiWS THEN TrimR(SubSeq(s, 1, Len(s) - 1)) ELSE s
AllAscii(s) == \A i \in 1..Len(s) : s[i] < 128
LowerB(s) == [i \in 1..Len(s) |-> IF s[i] >= 65 /\ s[i] <= 90 THEN s[i] + 32 ELSE s[i]]
UpperB(s) == [i \in 1..Len(s) |-> IF s[i] >= 97 /\ s[i] <= 122 THEN s[i] - 32 ELSE s[i]]
\* case mapping beyond ASCII is pinned for a few letters of three scripts (e-acute, n-tilde, gamma, ya) and for a caseless
\* ideograph; a text made only of ASCII and these is mapped letter by letter, any other text is left open
CasePairs == << << <<195,169>>, <<195,137>> >>, << <<195,177>>, <<195,145>> >>, << <<206,179>>, <<206,147>> >>, << <<209,143>>, <<208,175>> >> >>   \* <<lower, upper>>
CaselessSeqs == { <<228,184,173>> }
PairAt(bs, i) == IF i + 1 <= Len(bs) THEN {k \in 1..Len(CasePairs) : <<bs[i], bs[i + 1]>> \in {CasePairs[k][1], CasePairs[k][2]}} ELSE {}
RECURSIVE CaseMap(_, _, _)
CaseMap(bs, i, up) ==      \* <<pinned, mapped bytes from position i on>>
  IF i > Len(bs) THEN <<TRUE, <<>>>>
  ELSE IF bs[i] < 128 THEN
       LET r == CaseMap(bs, i + 1, up) IN <<r[1], (IF up THEN UpperB(<<bs[i]>>) ELSE LowerB(<<bs[i]>>)) \o r[2]>>
  ELSE IF PairAt(bs, i) # {} THEN
       LET k == CHOOSE k \in PairAt(bs, i) : TRUE  r == CaseMap(bs, i + 2, up) IN <<r[1], (IF up THEN CasePairs[k][2] ELSE CasePairs[k][1]) \o r[2]>>
  ELSE IF i + 2 <= Len(bs) /\ <<bs[i], bs[i + 1], bs[i + 2]>> \in CaselessSeqs THEN
       LET r == CaseMap(bs, i + 3, up) IN <<r[1], <<bs[i], bs[i + 1], bs[i + 2]>> \o r[2]>>
  ELSE <<FALSE, <<>>>>
Repeat(b, n) == [i \in 1..n |-> b]
RECURSIVE JoinB(_, _, _)
JoinB(l, sep, i) == IF i > Len(l) THEN <<>>
                    ELSE (IF i > 1 THEN sep ELSE <<>>) \o l[i][2] \o JoinB(l, sep, i + 1)

RV(x) == <<"v", x>>
RU == <<"u">>
RE == <<"e">>

\* zones with a constant offset over the dates of the models (their names as bytes); names no zone database has
ZoneOffsets == (<<85,84,67>> :> 0) @@ (<<65,115,105,97,47,83,104,97,110,103,104,97,105>> :> 28800)
               @@ (<<65,109,101,114,105,99,97,47,80,104,111,101,110,105,120>> :> -25200)      \* UTC, Asia/Shanghai, America/Phoenix
UnknownZones == { <<77,97,114,115,47,79,108,121,109,112,117,115>>, <<78,111,47,83,117,99,104>> }   \* Mars/Olympus, No/Such
\* layouts built from 2006 01 02 15 04 05 and separators - / : space T
TwoDigits(n) == <<48 + ((n \div 10) % 10), 48 + (n % 10)>>
FourDigits(n) == <<48 + ((n \div 1000) % 10), 48 + ((n \div 100) % 10), 48 + ((n \div 10) % 10), 48 + (n % 10)>>
RECURSIVE FormatFrom(_, _, _)
FormatFrom(l, p, f) ==
  IF p > Len(l) THEN <<TRUE, <<>>>>
  ELSE LET two == IF p + 1 <= Len(l) THEN <<l[p], l[p + 1]>> ELSE <<>>
           four == IF p + 3 <= Len(l) THEN SubSeq(l, p, p + 3) ELSE <<>>
           Rest(k, bs) == LET r == FormatFrom(l, p + k, f) IN <<r[1], bs \o r[2]>>
       IN IF four = <<50, 48, 48, 54>> THEN (IF f[1] >= 0 /\ f[1] <= 9999 THEN Rest(4, FourDigits(f[1])) ELSE <<FALSE, <<>>>>)
          ELSE IF two = <<48, 49>> THEN Rest(2, TwoDigits(f[2]))
          ELSE IF two = <<48, 50>> THEN Rest(2, TwoDigits(f[3]))
          ELSE IF two = <<49, 53>> THEN Rest(2, TwoDigits(f[4]))
          ELSE IF two = <<48, 52>> THEN Rest(2, TwoDigits(f[5]))
          ELSE IF two = <<48, 53>> THEN Rest(2, TwoDigits(f[6]))
          ELSE IF l[p] \in {45, 47, 58, 32, 84} THEN Rest(1, <<l[p]>>)
          ELSE <<FALSE, <<>>>>                      \* anything else in a layout: not modelled
FormatLayout(l, f) == FormatFrom(l, 1, f)

\* a numeric text: [-] digits [. digits] [e [+-] digits] with at least one digit (the literal grammar plus a sign)
IsNumericText(bs) ==
  LET b == IF Len(bs) > 0 /\ bs[1] = 45 THEN Tail(bs) ELSE bs
      ip == TakeDigits(b, 1)
      p1 == 1 + Len(ip)
      hasDot == p1 <= Len(b) /\ b[p1] = 46
      fp == IF hasDot THEN TakeDigits(b, p1 + 1) ELSE <<>>
      p2 == p1 + (IF hasDot THEN 1 + Len(fp) ELSE 0)
      hasExp == p2 <= Len(b) /\ b[p2] \in {101, 69}
      p3 == IF hasExp THEN (IF p2 + 1 <= Len(b) /\ b[p2 + 1] \in {43, 45} THEN p2 + 2 ELSE p2 + 1) ELSE p2
      ed == IF hasExp THEN TakeDigits(b, p3) ELSE <<>>
  IN /\ Len(ip) + Len(fp) > 0
     /\ (hasExp => Len(ed) > 0 /\ Len(ed) <= 3)
     /\ p3 + Len(ed) = Len(b) + 1
NumericText(bs) == IF bs[1] = 45 THEN DNeg(FromLiteral(Tail(bs))) ELSE FromLiteral(bs)
\* a word of letters other than the spellings of the special values: certainly not a number
\* texts that are no numbers although a number scanner may stop inside them without complaint: the empty text, a lone
\* sign, cut-off spellings of inf / infinity / nan
NaNTexts == { <<>>, <<45>>, <<43>>, <<105,110>>, <<110,97>>, <<105>>, <<105,110,102,105,110,105,116>>, <<45,105,110>> }
IsPlainWord(bs) == Len(bs) > 0 /\ (\A i \in 1..Len(bs) : bs[i] \in {97, 98, 99, 120, 121, 122}) 

\* pure builtins on arguments of their own kinds: <<"v", value>> | <<"e">> | <<"u">>
Pure(n, a) ==
  CASE n = "startWith" -> RV(Bool(IsPrefixB(a[2][2], a[1][2])))
    [] n = "endWith" -> RV(Bool(IsSuffixB(a[2][2], a[1][2])))
    [] n = "contains" -> RV(Bool(ContainsB(a[2][2], a[1][2])))
    [] n = "find" -> RV(NumI(FindB(a[2][2], a[1][2])))
    [] n = "len" -> RV(NumI(Len(a[1][2])))
    [] n = "left" -> IF ~IsTiny(a[2]) \/ SmallInt(a[2]) < 0 THEN RU ELSE RV(Str(LeftB(a[1][2], SmallInt(a[2]))))
    [] n = "right" -> IF ~IsTiny(a[2]) \/ SmallInt(a[2]) < 0 THEN RU ELSE RV(Str(RightB(a[1][2], SmallInt(a[2]))))
    [] n = "mid" -> IF ~IsTiny(a[2]) \/ ~IsTiny(a[3]) \/ SmallInt(a[2]) > SmallInt(a[3]) THEN RU
                    ELSE RV(Str(MidB(a[1][2], SmallInt(a[2]), SmallInt(a[3]))))
    [] n = "lower" -> LET r == CaseMap(a[1][2], 1, FALSE) IN IF r[1] THEN RV(Str(r[2])) ELSE RU
    [] n = "upper" -> LET r == CaseMap(a[1][2], 1, TRUE) IN IF r[1] THEN RV(Str(r[2])) ELSE RU
    [] n = "trim" -> IF AllAscii(a[1][2]) THEN RV(Str(TrimR(TrimL(a[1][2])))) ELSE RU
    [] n = "replace" -> IF a[2][2] = <<>> THEN RU ELSE RV(Str(ReplaceB(a[1][2], a[2][2], a[3][2], 1)))
    [] n \in {"lpad", "rpad"} ->
         IF ~IsTiny(a[3]) \/ SmallInt(a[3]) < 0 \/ SmallInt(a[3]) > 2000 \/ Len(a[2][2]) # 1 \/ a[2][2][1] >= 128 THEN RU
         ELSE LET s == a[1][2]  k == SmallInt(a[3]) IN
              IF Len(s) > k THEN RV(Str(SubSeq(s, 1, k)))
              ELSE IF n = "lpad" THEN RV(Str(Repeat(a[2][2][1], k - Len(s)) \o s))
              ELSE RV(Str(s \o Repeat(a[2][2][1], k - Len(s))))
    \* regexp: pinned for the patterns of the oracle's pool on ASCII subjects without line feeds
    [] n = "regexp" -> LET ps == {p \in RePool : ReRender(p) = a[2][2]} IN
                       IF ps = {} \/ ~AllAscii(a[1][2]) \/ 10 \in {a[1][2][i] : i \in 1..Len(a[1][2])} THEN RU
                       ELSE RV(Bool(ReMatch(CHOOSE p \in ps : TRUE, a[1][2])))
    [] n = "includes" -> RV(Bool(\E i \in 1..Len(a[1][2]) : a[1][2][i] = a[2]))
    [] n = "join" -> RV(Str(JoinB(a[1][2], a[2][2], 1)))
    \* dates (C19); the process-local zone of the model is UTC, named zones have fixed offsets
    [] n = "date" -> IF IsTiny(a[1]) /\ IsTiny(a[2]) /\ IsTiny(a[3]) /\ SmallInt(a[1]) >= 1 /\ SmallInt(a[1]) <= 9999
                        /\ SmallInt(a[2]) >= -1200 /\ SmallInt(a[2]) <= 1200 /\ SmallInt(a[3]) >= -40000 /\ SmallInt(a[3]) <= 40000
                     THEN RV(<<"time", NormDays(SmallInt(a[1]), SmallInt(a[2]), SmallInt(a[3])), 0, 0>>) ELSE RU
    [] n \in {"year", "month", "day", "hour", "minute", "second", "weekDay"} ->
         LET f == LocalFields(a[1])
             k == CASE n = "year" -> 1 [] n = "month" -> 2 [] n = "day" -> 3 [] n = "hour" -> 4 [] n = "minute" -> 5
                    [] n = "second" -> 6 [] n = "weekDay" -> 7
         IN RV(NumI(f[k]))
    [] n = "millSecond" -> RV(NumOf(DAddExact(DMulExact(DInt(a[1][2]), DInt(MsPerDay)), DInt(a[1][3]))))
    [] n = "addDate" ->
         IF ~(IsTiny(a[2]) /\ IsTiny(a[3]) /\ IsTiny(a[4])) \/ a[1][4] # 0 THEN RU          \* shifting in a zone with rules: not modelled
         ELSE LET f == LocalFields(a[1])
                  y == f[1] + SmallInt(a[2])
              IN IF y < 1 \/ y > 9999 \/ SmallInt(a[3]) < -1200 \/ SmallInt(a[3]) > 1200 \/ SmallInt(a[4]) < -40000 \/ SmallInt(a[4]) > 40000 THEN RU
                 ELSE RV(OfLocal(NormDays(y, f[2] + SmallInt(a[3]), f[3] + SmallInt(a[4])), f[4] * 3600 + f[5] * 60 + f[6], a[1][3] % 1000, 0))
    [] n = "useTimezone" ->
         IF a[2][2] \in DOMAIN ZoneOffsets THEN RV(<<"time", a[1][2], a[1][3], ZoneOffsets[a[2][2]]>>)
         ELSE IF a[2][2] \in UnknownZones THEN RE ELSE RU
    [] n = "timeFormat" -> LET r == FormatLayout(a[2][2], LocalFields(a[1])) IN IF r[1] THEN RV(Str(r[2])) ELSE RU
    \* numbers (C18)
    [] n = "abs" -> RV(NumOf(DAbs(DecOf(a[1]))))
    \* conversions (C18)
    [] n = "toInt" -> IF a[1][1] = "num" THEN (IF IntArgPinned(a[1]) THEN RV(NumOf(DTrunc(DecOf(a[1])))) ELSE RU)
                      ELSE IF a[1][1] = "str" /\ IsNumericText(a[1][2]) THEN RV(NumOf(DTrunc(NumericText(a[1][2]))))
                      ELSE RU
    [] n = "toFloat" -> IF a[1][1] \in {"num", "nan", "inf"} THEN RV(a[1])
                        ELSE IF a[1][1] = "strnum" THEN RV(<<"num", a[1][2], a[1][3], a[1][4]>>)
                        ELSE IF a[1][1] = "str" /\ IsNumericText(a[1][2]) THEN RV(NumOf(NumericText(a[1][2])))
                        ELSE IF a[1][1] = "str" /\ (IsPlainWord(a[1][2]) \/ a[1][2] \in NaNTexts) THEN RV(<<"nan">>)
                        ELSE RU
    \* toString of a number is "a text that parses back to that number": kept symbolic
    [] n = "toString" -> IF a[1][1] = "num" THEN RV(<<"strnum", a[1][2], a[1][3], a[1][4]>>)
                         ELSE IF a[1][1] = "str" THEN RV(a[1]) ELSE RU
    [] n = "finite" -> IF a[1][1] = "num" THEN RV(a[1]) ELSE RV(NumI(0))
    \* ceil / floor: pinned on the property's domain (at most 15 significant digits).  Beyond 16 digits the pinned
    \* commit computes them in a 16-digit context (Context64), so ceil(x) can be below x; C18 does not speak about
    \* such arguments and the specification leaves them open (DESIGN.md 9.3, observations outside a property's domain)
    [] n = "ceil" -> IF Len(DecOf(a[1])[2]) <= 15 THEN RV(NumOf(DCeil(DecOf(a[1])))) ELSE RU
    [] n = "floor" -> IF Len(DecOf(a[1])[2]) <= 15 THEN RV(NumOf(DFloor(DecOf(a[1])))) ELSE RU
    [] n = "roundBank" -> RV(NumOf(DRoundHalfEven(DecOf(a[1]))))
    [] n = "round" -> LET x == DecOf(a[1])  f == DFloor(x)  fr == DAddExact(x, DNeg(f))  c == DCmp(fr, DHalf) IN
                      IF c < 0 THEN RV(NumOf(f))
                      ELSE IF c > 0 THEN RV(NumOf(DAddExact(f, DOne)))
                      ELSE RV(<<"oneof", NumOf(f), NumOf(DAddExact(f, DOne))>>)
    [] OTHER -> RU

\* numeric builtins on non-finite arguments are not pinned
NeedsFinite(n) == n \in {"abs", "ceil", "floor", "roundBank", "round", "max", "min"}

RECURSIVE MaxOf(_, _, _), MinOf(_, _, _)
MaxOf(l, i, m) == IF i > Len(l) THEN m ELSE MaxOf(l, i + 1, IF DCmp(DecOf(l[i]), DecOf(m)) > 0 THEN l[i] ELSE m)
MinOf(l, i, m) == IF i > Len(l) THEN m ELSE MinOf(l, i + 1, IF DCmp(DecOf(l[i]), DecOf(m)) < 0 THEN l[i] ELSE m)

\* ---------------------------------------------------------------- the call itself
\* spread: the last argument must be an array, which replaces it
Spread(args) == SubSeq(args, 1, Len(args) - 1) \o args[Len(args)][2]

ParamKind(sig, i) == IF i <= Len(sig[1]) THEN sig[1][i] ELSE sig[1][Len(sig[1])]

ApplyFunc(n, args0, spread, log) ==
  LET sig == Sig(n)
      np == Len(sig[1])
  IN
  IF spread /\ ~sig[2] THEN <<"e", log>>                               \* spread on a non-variadic function
  ELSE IF spread /\ Len(args0) = 0 THEN RU                              \* f(...) - unpinned corner
  ELSE IF spread /\ Len(args0) # np THEN <<"e", log>>                  \* fixed part must match exactly
  ELSE IF spread /\ args0[Len(args0)][1] # "arr" THEN <<"e", log>>     \* spread of a non-array
  ELSE LET args == IF spread THEN Spread(args0) ELSE args0
           na == Len(args)
       IN
       IF (~sig[2] /\ na # np) \/ (sig[2] /\ na < np - 1) THEN <<"e", log>>      \* argument count
       ELSE LET cs == [i \in 1..na |-> Conv(ParamKind(sig, i), args[i])] IN
            IF \E i \in 1..na : cs[i][1] = "err" /\ \A j \in 1..(i - 1) : cs[j][1] = "ok" THEN <<"e", log>>
            ELSE IF \E i \in 1..na : cs[i][1] # "ok" THEN RU
            ELSE LET natural == \A i \in 1..na : cs[i][2] IN
              CASE n = "rec" -> <<"v", args[1], Append(log, <<"rec", args>>)>>
                [] n = "crec" -> <<"v", args[1], Append(log, <<"crec", args>>)>>
                [] n = "cstr" -> RU
                [] n = "id" -> <<"v", args[1], log>>
                [] n = "fail" -> <<"e", Append(log, <<"fail", args>>)>>
                [] n = "failv" -> <<"e", Append(log, <<"failv", args>>)>>      \* returns (-1, error): still only an error
                [] n = "recs" -> <<"v", Arr(args), Append(log, <<"recs", args>>)>>
                [] ~natural -> RU
                [] n = "add2" -> IF IntArgPinned(args[1]) /\ IntArgPinned(args[2])
                                 THEN <<"v", NumOf(DAddExact(IntArg(args[1]), IntArg(args[2]))), Append(log, <<"add2", <<NumOf(IntArg(args[1])), NumOf(IntArg(args[2]))>>>>)>>
                                 ELSE RU
                [] n = "cat" -> <<"v", Str(JoinB(args, <<>>, 1)), Append(log, <<"cat", args>>)>>
                [] NeedsFinite(n) /\ \E i \in 1..na : args[i][1] # "num" -> RU
                [] n = "max" -> IF na = 0 THEN <<"e", log>> ELSE <<"v", MaxOf(args, 2, args[1]), log>>
                [] n = "min" -> IF na = 0 THEN <<"e", log>> ELSE <<"v", MinOf(args, 2, args[1]), log>>
                [] OTHER -> LET r == Pure(n, args) IN
                            IF r[1] = "v" THEN <<"v", r[2], log>> ELSE IF r[1] = "e" THEN <<"e", log>> ELSE RU
=============================================================================
