------------------------------- MODULE FConc -------------------------------
(* Sharing a parsed formula across goroutines (C09).  Workloads: each       *)
(* goroutine evaluates a *shared* tree with its own runner and data map, or *)
(* analyses it, or parses other texts.  The shared objects (trees, builtin  *)
(* and keyword tables) are read-only; what a goroutine writes ("$" locals)  *)
(* goes to its own data map.  So every goroutine's result is the sequential *)
(* one, whatever the interleaving.                                          *)
EXTENDS FEval, FData, FFields, FLexer, TLC

Tk(k, v) == <<k, v, FALSE>>
OpK(k) == <<k, k, FALSE>>
Two == <<FALSE, <<2>>, 0>>
\* shared formulas (token sequences): a + b * 2  and  $t = a, $t + b
SharedTexts == <<
  << Tk("Id", "a"), OpK("+"), Tk("Id", "b"), OpK("*"), Tk("Num", Two) >>,
  << Tk("Id", "$t"), OpK("="), Tk("Id", "a"), OpK(","), Tk("Id", "$t"), OpK("+"), Tk("Id", "b") >>,
  << Tk("Id", "a"), OpK("+"), Tk("Id", "b") >>,
  \* [regexp(s1, 'ab'), regexp(s2, '^(a)*$'), regexp(s2, 'ab')] : two patterns in flight in every evaluation
  << OpK("["), Tk("Id", "regexp"), OpK("("), Tk("Id", "s1"), OpK(","), Tk("Str", <<97,98>>), OpK(")"), OpK(","),
     Tk("Id", "regexp"), OpK("("), Tk("Id", "s2"), OpK(","), Tk("Str", <<94,40,97,41,42,36>>), OpK(")"), OpK(","),
     Tk("Id", "regexp"), OpK("("), Tk("Id", "s2"), OpK(","), Tk("Str", <<97,98>>), OpK(")"), OpK("]") >>,
  \* (m).a + b : evaluates, but the field analysis refuses it (the error path of the analysis on a shared tree)
  << OpK("("), Tk("Id", "m"), OpK(")"), OpK("."), Tk("Id", "a"), OpK("+"), Tk("Id", "b") >>,
  \* round(a) * 1000 + roundBank(b) (a not a tie, b an exact tie): two rounding modes in flight in every evaluation
  << Tk("Id", "round"), OpK("("), Tk("Id", "a"), OpK(")"), OpK("*"), Tk("Num", <<FALSE, <<1>>, 3>>), OpK("+"),
     Tk("Id", "roundBank"), OpK("("), Tk("Id", "b"), OpK(")") >>,
  \* two formulas with exactly one referenced field each
  << Tk("Id", "round"), OpK("("), Tk("Id", "a"), OpK(")"), OpK("+"), Tk("Num", <<FALSE, <<1>>, 0>>) >>,
  << Tk("Id", "lower"), OpK("("), Tk("Id", "s1"), OpK(")") >>,
  \* $c = ($c ?? 0) + 1, $c   evaluated by runners that were never given a data map (data index 0): each its own locals
  << Tk("Id", "$c"), OpK("="), OpK("("), Tk("Id", "$c"), OpK("??"), Tk("Num", <<FALSE, <<>>, 0>>), OpK(")"), OpK("+"), Tk("Num", <<FALSE, <<1>>, 0>>),
     OpK(","), Tk("Id", "$c") >>,
  \* hour(useTimezone(t, z)) with a zone name the process has not seen before (data 8-31): whatever the library keeps
  \* about zones is first filled while several goroutines ask at once (zone rules are not specified: the value is open)
  << Tk("Id", "hour"), OpK("("), Tk("Id", "useTimezone"), OpK("("), Tk("Id", "t"), OpK(","), Tk("Id", "z"), OpK(")"), OpK(")") >>,
  \* len(toString(m)) : a map formatted as text by every goroutine (the text itself is not specified)
  << Tk("Id", "len"), OpK("("), Tk("Id", "toString"), OpK("("), Tk("Id", "m"), OpK(")"), OpK(")") >>,
  \* st.A + st.B.a : fields of a Go struct (whatever the library remembers about a struct type is first filled while
  \* several goroutines ask at once: every goroutine starts each round with this formula)
  << Tk("Id", "st"), OpK("."), Tk("Id", "A"), OpK("+"), Tk("Id", "st"), OpK("."), Tk("Id", "B"), OpK("."), Tk("Id", "a") >> >>
Datas == << [a |-> <<"int", 1>>, b |-> <<"int", 2>>],
            [a |-> <<"dec", FALSE, <<1>>, 1>>, b |-> <<"f64", FALSE, <<5>>, -1>>],
            [a |-> <<"int64", FALSE, <<9,0,0,7,1,9,9,2,5,4,7,4,0,9,9,3>>>>, b |-> <<"int", -3>>],
            [s1 |-> <<"str", <<99,97,98>>>>, s2 |-> <<"str", <<97,97,97>>>>],
            [s1 |-> <<"str", <<98,97>>>>, s2 |-> <<"str", <<97,98>>>>],
            [m |-> <<"map", [a |-> <<"int", 4>>]>>, b |-> <<"dec", FALSE, <<1,5>>, -1>>],
            [a |-> <<"dec", FALSE, <<2,6>>, -1>>, b |-> <<"dec", FALSE, <<4,5>>, -1>>],
            [t |-> <<"time", 19000, 3600000, 0>>, z |-> <<"str", <<65,115,105,97,47,84,111,107,121,111>>>>],
            [t |-> <<"time", 19000, 3600000, 0>>, z |-> <<"str", <<69,117,114,111,112,101,47,80,97,114,105,115>>>>],
            [t |-> <<"time", 19000, 3600000, 0>>, z |-> <<"str", <<65,109,101,114,105,99,97,47,67,104,105,99,97,103,111>>>>],
            [t |-> <<"time", 19000, 3600000, 0>>, z |-> <<"str", <<65,102,114,105,99,97,47,67,97,105,114,111>>>>],
            [t |-> <<"time", 19000, 3600000, 0>>, z |-> <<"str", <<80,97,99,105,102,105,99,47,65,117,99,107,108,97,110,100>>>>],
            [t |-> <<"time", 19000, 3600000, 0>>, z |-> <<"str", <<65,115,105,97,47,75,111,108,107,97,116,97>>>>],
            [t |-> <<"time", 19000, 3600000, 0>>, z |-> <<"str", <<65,109,101,114,105,99,97,47,68,101,110,118,101,114>>>>],
            [t |-> <<"time", 19000, 3600000, 0>>, z |-> <<"str", <<65,109,101,114,105,99,97,47,83,97,111,95,80,97,117,108,111>>>>],
            [t |-> <<"time", 19000, 3600000, 0>>, z |-> <<"str", <<69,117,114,111,112,101,47,66,101,114,108,105,110>>>>],
            [t |-> <<"time", 19000, 3600000, 0>>, z |-> <<"str", <<69,117,114,111,112,101,47,77,97,100,114,105,100>>>>],
            [t |-> <<"time", 19000, 3600000, 0>>, z |-> <<"str", <<65,115,105,97,47,68,117,98,97,105>>>>],
            [t |-> <<"time", 19000, 3600000, 0>>, z |-> <<"str", <<65,115,105,97,47,83,101,111,117,108>>>>],
            [t |-> <<"time", 19000, 3600000, 0>>, z |-> <<"str", <<65,117,115,116,114,97,108,105,97,47,83,121,100,110,101,121>>>>],
            [t |-> <<"time", 19000, 3600000, 0>>, z |-> <<"str", <<65,102,114,105,99,97,47,76,97,103,111,115>>>>],
            [t |-> <<"time", 19000, 3600000, 0>>, z |-> <<"str", <<65,109,101,114,105,99,97,47,84,111,114,111,110,116,111>>>>],
            [t |-> <<"time", 19000, 3600000, 0>>, z |-> <<"str", <<69,117,114,111,112,101,47,82,111,109,101>>>>],
            [t |-> <<"time", 19000, 3600000, 0>>, z |-> <<"str", <<65,115,105,97,47,66,97,110,103,107,111,107>>>>],
            [t |-> <<"time", 19000, 3600000, 0>>, z |-> <<"str", <<65,109,101,114,105,99,97,47,76,105,109,97>>>>],
            [t |-> <<"time", 19000, 3600000, 0>>, z |-> <<"str", <<69,117,114,111,112,101,47,79,115,108,111>>>>],
            [t |-> <<"time", 19000, 3600000, 0>>, z |-> <<"str", <<65,115,105,97,47,77,97,110,105,108,97>>>>],
            [t |-> <<"time", 19000, 3600000, 0>>, z |-> <<"str", <<80,97,99,105,102,105,99,47,70,105,106,105>>>>],
            [t |-> <<"time", 19000, 3600000, 0>>, z |-> <<"str", <<65,109,101,114,105,99,97,47,66,111,103,111,116,97>>>>],
            [t |-> <<"time", 19000, 3600000, 0>>, z |-> <<"str", <<69,117,114,111,112,101,47,65,116,104,101,110,115>>>>],
            [t |-> <<"time", 19000, 3600000, 0>>, z |-> <<"str", <<65,115,105,97,47,75,97,114,97,99,104,105>>>>] ,
            [st |-> <<"struct", [A |-> <<"int", 4>>, B |-> <<"map", [a |-> <<"f64", FALSE, <<2,5>>, -1>>]>>, N |-> <<"nilptr">>, P |-> <<"str", <<112>>>>], <<"c">>>>] >>
\* texts (bytes) that other goroutines parse meanwhile: escapes, long literals, a rejected one
ParseTexts == << <<39,92,117,52,70,49,49,92,117,52,70,51,52,39,43,39,92,120,52,49,39>>,      \* '\u4F11\u4F34'+'\x41'
                 <<39,92,117,48,48,52,49,92,120,54,50,92,117,52,101,50,100,39>>,            \* '\u0041\x62\u4e2d'
                 <<49,32,43,10,32,40,50,32,42>>,                                            \* 1 +\n (2 *
                 <<49,101,49,95,48,32,43,32,50,46,53,101,45,51>>,
                 <<97,32,63,32,98>>, <<102,40,112,32,63,32,113,41>> >>          \* a ? b   f(p ? q)  : the "':' expected" diagnostic                                  \* 1e1_0 + 2.5e-3  (the same byte buffer is handed to every goroutine)
\* a workload is <<"eval", text index, data index>> | <<"fields", text index>>
SharedTree(i) == ParseTokens(SharedTexts[i])[2]
\* <<"evaldeep", i, j, d>>: formula i wrapped in d pairs of parentheses (a parenthesised expression has the value
\* of its inside, FEval "Paren"), evaluated with data j: the result is that of <<"eval", i, j>>
RECURSIVE Expected(_)
Expected(w) ==
  IF w[1] = "evaldeep" THEN Expected(<<"eval", w[2], w[3]>>) ELSE
  IF w[1] = "eval" THEN
     LET o == Outcome(SharedTree(w[2]), [this |-> IF w[3] = 0 THEN <<>> ELSE NormMap(Datas[w[3]]), log |-> <<>>]) IN
     IF o[1] = "ok" THEN <<"ok", o[2], o[3].this>> ELSE IF o[1] = "err" THEN <<"err", o[2].this>> ELSE o
  ELSE IF w[1] = "parse" THEN
     LET lx == LexAll(ParseTexts[w[2]]) IN IF lx.st # "ok" THEN <<"REJECT">> ELSE ParseTokens(GToks(lx.toks))
  ELSE <<Fields(SharedTree(w[2])), FieldsNotLocal(SharedTree(w[2]))>>
\* evaluation steps (one gate per evaluated node) of the shared formulas
GatesOf(w) == IF w[1] = "eval" THEN (CASE w[2] = 1 -> 5 [] w[2] = 2 -> 6 [] w[2] = 3 -> 3 [] w[2] = 4 -> 13) ELSE 0
=============================================================================
