------------------------------ MODULE FFields ------------------------------
(***************************************************************************)
(* Referenced-field analysis (C10).  A path is a sequence of names         *)
(* (<<"a">>, <<"a", "b", "c">>).                                            *)
(*   Fields(t)  = <<"ok", lower, upper>> | <<"refuse">>                    *)
(* lower = the bare names and maximal dotted paths the formula reads as    *)
(* values (everywhere except callee position, "$" locals included,         *)
(* literals - also `this` - excluded); upper = lower plus the names that   *)
(* occur only as assignment targets (whether those count as "read" is not  *)
(* pinned: any reported set S with lower <= S <= upper is exact).          *)
(* The analysis refuses member access on anything but a name or path.      *)
(***************************************************************************)
EXTENDS FGrammar, FiniteSets

RECURSIVE PathOf(_)
\* <<TRUE, path>> when t is a name or dotted path, else <<FALSE>>
PathOf(t) == IF t[1] = "Id" THEN <<TRUE, <<t[2]>>>>
             ELSE IF t[1] = "Sel" THEN
                  LET p == PathOf(t[2]) IN IF p[1] THEN <<TRUE, Append(p[2], t[3])>> ELSE <<FALSE>>
             ELSE <<FALSE>>

RECURSIVE FRead(_), FReadList(_, _), FTargets(_), FTargetsList(_, _), FRefuses(_), FRefusesList(_, _)
FReadList(l, i) == IF i > Len(l) THEN {} ELSE FRead(l[i]) \cup FReadList(l, i + 1)
\* paths read as values
FRead(t) ==
  CASE t[1] = "Lit" -> {}
    [] t[1] = "Id" -> {<<t[2]>>}
    [] t[1] = "Sel" -> LET p == PathOf(t) IN IF p[1] THEN {p[2]} ELSE {}
    [] t[1] = "Paren" -> FRead(t[2])
    [] t[1] = "Arr" -> FReadList(t[2], 1)
    [] t[1] = "Pre" -> FRead(t[3])
    [] t[1] = "Typeof" -> FRead(t[2])
    [] t[1] = "Cond" -> FRead(t[2]) \cup FRead(t[3]) \cup FRead(t[4])
    [] t[1] = "Call" -> FReadList(t[3], 1)                    \* not the callee
    [] t[1] = "Bin" /\ t[2] = "=" /\ t[3][1] = "Id" -> FRead(t[4])    \* a bare target is written, not read
    [] t[1] = "Bin" -> FRead(t[3]) \cup FRead(t[4])
FTargetsList(l, i) == IF i > Len(l) THEN {} ELSE FTargets(l[i]) \cup FTargetsList(l, i + 1)
\* bare names in assignment-target position
FTargets(t) ==
  CASE t[1] \in {"Lit", "Id", "Sel"} -> {}
    [] t[1] = "Paren" -> FTargets(t[2])
    [] t[1] = "Arr" -> FTargetsList(t[2], 1)
    [] t[1] = "Pre" -> FTargets(t[3])
    [] t[1] = "Typeof" -> FTargets(t[2])
    [] t[1] = "Cond" -> FTargets(t[2]) \cup FTargets(t[3]) \cup FTargets(t[4])
    [] t[1] = "Call" -> FTargetsList(t[3], 1)
    [] t[1] = "Bin" /\ t[2] = "=" /\ t[3][1] = "Id" -> {<<t[3][2]>>} \cup FTargets(t[4])
    [] t[1] = "Bin" -> FTargets(t[3]) \cup FTargets(t[4])
FRefusesList(l, i) == IF i > Len(l) THEN FALSE ELSE FRefuses(l[i]) \/ FRefusesList(l, i + 1)
\* a selector in value position whose base is not a name or path
FRefuses(t) ==
  CASE t[1] \in {"Lit", "Id"} -> FALSE
    [] t[1] = "Sel" -> ~PathOf(t)[1]
    [] t[1] = "Paren" -> FRefuses(t[2])
    [] t[1] = "Arr" -> FRefusesList(t[2], 1)
    [] t[1] = "Pre" -> FRefuses(t[3])
    [] t[1] = "Typeof" -> FRefuses(t[2])
    [] t[1] = "Cond" -> FRefuses(t[2]) \/ FRefuses(t[3]) \/ FRefuses(t[4])
    [] t[1] = "Call" -> FRefusesList(t[3], 1)
    [] t[1] = "Bin" -> FRefuses(t[3]) \/ FRefuses(t[4])

Fields(t) == IF FRefuses(t) THEN <<"refuse">> ELSE <<"ok", FRead(t), FRead(t) \cup FTargets(t)>>
NotLocal(ps) == {p \in ps : p[1] \notin {"$", "$a", "$b", "$c", "$x", "$y", "$l", "$t", "$abs"}}
FieldsNotLocal(t) == LET f == Fields(t) IN IF f[1] = "refuse" THEN f ELSE <<"ok", NotLocal(f[2]), NotLocal(f[3])>>

\* names the formula calls (callee paths) and whether it uses `this`
RECURSIVE Calls(_), CallsList(_, _), UsesThis(_), UsesThisList(_, _)
CallsList(l, i) == IF i > Len(l) THEN {} ELSE Calls(l[i]) \cup CallsList(l, i + 1)
Calls(t) ==
  CASE t[1] \in {"Lit", "Id"} -> {}
    [] t[1] = "Sel" -> Calls(t[2])
    [] t[1] = "Paren" -> Calls(t[2])
    [] t[1] = "Arr" -> CallsList(t[2], 1)
    [] t[1] = "Pre" -> Calls(t[3])
    [] t[1] = "Typeof" -> Calls(t[2])
    [] t[1] = "Cond" -> Calls(t[2]) \cup Calls(t[3]) \cup Calls(t[4])
    [] t[1] = "Call" -> (LET p == PathOf(t[2]) IN IF p[1] THEN {p[2]} ELSE {}) \cup Calls(t[2]) \cup CallsList(t[3], 1)
    [] t[1] = "Bin" -> Calls(t[3]) \cup Calls(t[4])
UsesThisList(l, i) == IF i > Len(l) THEN FALSE ELSE UsesThis(l[i]) \/ UsesThisList(l, i + 1)
UsesThis(t) ==
  CASE t[1] = "Lit" -> t[2] = "Kw" /\ t[3] = "this"
    [] t[1] = "Id" -> FALSE
    [] t[1] = "Sel" -> UsesThis(t[2])
    [] t[1] = "Paren" -> UsesThis(t[2])
    [] t[1] = "Arr" -> UsesThisList(t[2], 1)
    [] t[1] = "Pre" -> UsesThis(t[3])
    [] t[1] = "Typeof" -> UsesThis(t[2])
    [] t[1] = "Cond" -> UsesThis(t[2]) \/ UsesThis(t[3]) \/ UsesThis(t[4])
    [] t[1] = "Call" -> UsesThis(t[2]) \/ UsesThisList(t[3], 1)
    [] t[1] = "Bin" -> UsesThis(t[3]) \/ UsesThis(t[4])
=============================================================================
