------------------------------ MODULE FValues ------------------------------
(***************************************************************************)
(* The value domain a formula can observe (tagged tuples, tag first):      *)
(*   <<"null">>  <<"bool", b>>  <<"num", neg, digits, exp>>  <<"nan">>     *)
(*   <<"inf", neg>>  <<"str", bytes>>  <<"arr", <<v...>>>>                 *)
(*   <<"map", [key |-> v]>>  <<"struct", [Field |-> v], <<hidden names>>>>      *)
(*   <<"time", ms-digits, offset>>  <<"func", name>>  <<"ctx">>            *)
(*   <<"other", kind>>                                                     *)
(* Go int / int32 / int64 / float64 data are numbers and a typed nil       *)
(* pointer is null.                                                        *)
(***************************************************************************)
EXTENDS FDecimal

Null == <<"null">>
\* a typed nil pointer: null for truthiness, equality and member access, but it keeps its
\* identity when handed on unchanged (array elements, final result)
TNil == <<"null", TRUE>>
IsNullV(v) == v[1] = "null"
Bool(b) == <<"bool", b>>
NumOf(d) == <<"num", d[1], d[2], d[3]>>
DecOf(v) == <<v[2], v[3], v[4]>>
Str(bs) == <<"str", bs>>
Arr(s) == <<"arr", s>>
NumI(n) == NumOf(DInt(n))

IsNum(v) == v[1] = "num"
Kind(v) == v[1]
Scalar == {"null", "bool", "num", "str"}

\* the one notion of truthiness (C06)
Truthy(v) ==
  CASE v[1] = "null" -> FALSE
    [] v[1] = "bool" -> v[2]
    [] v[1] = "num" -> v[3] # <<>>
    [] v[1] = "nan" -> FALSE
    [] v[1] = "str" -> Len(v[2]) > 0
    [] OTHER -> TRUE

\* bytewise lexicographic order of two byte sequences: -1, 0, 1
BytesCmp(a, b) ==
  LET n == IF Len(a) < Len(b) THEN Len(a) ELSE Len(b)
      d == {i \in 1..n : a[i] # b[i]}
  IN IF d = {} THEN (IF Len(a) = Len(b) THEN 0 ELSE IF Len(a) < Len(b) THEN -1 ELSE 1)
     ELSE LET i == CHOOSE i \in d : \A j \in d : i <= j IN IF a[i] < b[i] THEN -1 ELSE 1

\* === on null / bool / num / str (C05)
StrictEq(a, b) ==
  IF a[1] # b[1] THEN FALSE
  ELSE CASE a[1] = "null" -> TRUE
         [] a[1] = "bool" -> a[2] = b[2]
         [] a[1] = "num" -> DCmp(DecOf(a), DecOf(b)) = 0
         [] a[1] = "str" -> a[2] = b[2]
=============================================================================
