----------------------------- MODULE FGrammar -----------------------------
(***************************************************************************)
(* The grammar of aundis/formula, stated as data (precedence ladder) and   *)
(* as two independent definitions:                                         *)
(*   - ParseTokens(s): an executable recogniser / tree builder over a      *)
(*     token sequence (precedence climbing);                               *)
(*   - WF(t) + Unparse(t): the declarative side - which trees are          *)
(*     derivable and which token sequence each one spells.                 *)
(* The theorem model-checked in MC_Grammar is                              *)
(*   ParseTokens(s) = <<"OK", t>>  =>  WF(t) /\ Unparse(t) = s (mod nl).   *)
(*                                                                         *)
(* A token is a triple <<k, v, nl>>: k is the token kind, one of           *)
(*   "Num" "Str" "Id" "Kw" "typeof" "Unknown" or the operator /            *)
(*   punctuation lexeme itself ("(", "===", "!.", ...);                    *)
(* v is the lexeme (for "Str": the decoded bytes, for "Num": the decimal   *)
(* number <<neg, digits, exp>> it denotes); nl is TRUE when a line break   *)
(* precedes the token.                                                     *)
(*                                                                         *)
(* Trees:  <<"Lit", k, v>>  <<"Id", name>>  <<"Paren", e>>  <<"Arr", es>>  *)
(*   <<"Sel", e, name, assert>>  <<"Call", e, args, spread>>               *)
(*   <<"Pre", op, e>>  <<"Typeof", e>>  <<"Cond", c, a, b>>                *)
(*   <<"Bin", op, l, r>>                                                   *)
(***************************************************************************)
EXTENDS Integers, Sequences

BinOps == {"||", "??", "&&", "|", "^", "&", "==", "!=", "===", "!==",
           "<", ">", "<=", ">=", "+", "-", "*", "/", "%"}

\* The precedence ladder of the property statement, as data.
Prec(k) == CASE k \in {"||", "??"} -> 1
             [] k = "&&" -> 2
             [] k = "|" -> 3
             [] k = "^" -> 4
             [] k = "&" -> 5
             [] k \in {"==", "!=", "===", "!=="} -> 6
             [] k \in {"<", ">", "<=", ">="} -> 7
             [] k \in {"+", "-"} -> 9
             [] k \in {"*", "/", "%"} -> 10
             [] OTHER -> 0

PrefixOps == {"+", "-", "!", "!!", "~"}
LitKinds  == {"Num", "Str", "Kw"}
NameKinds == {"Id", "Kw", "typeof"}    \* what may follow "." / "!."

PFail == [ok |-> FALSE]
POk(t, i) == [ok |-> TRUE, t |-> t, i |-> i]

TK(s, i)  == IF i <= Len(s) THEN s[i][1] ELSE "EOF"
TV(s, i)  == IF i <= Len(s) THEN s[i][2] ELSE ""
TNL(s, i) == IF i <= Len(s) THEN s[i][3] ELSE FALSE

RECURSIVE PExpr(_,_), PAssign(_,_), PBinary(_,_,_), PBinRest(_,_,_,_), PUnary(_,_),
          PPostfix(_,_,_), PPrimary(_,_), PList(_,_,_,_), PCommaRest(_,_,_)

PPrimary(s, i) ==
  LET k == TK(s, i) IN
  CASE k \in LitKinds -> POk(<<"Lit", k, TV(s, i)>>, i + 1)
    [] k = "Id" -> POk(<<"Id", TV(s, i)>>, i + 1)
    [] k = "(" -> LET e == PExpr(s, i + 1) IN
                  IF e.ok /\ TK(s, e.i) = ")" THEN POk(<<"Paren", e.t>>, e.i + 1) ELSE PFail
    [] k = "[" -> IF TK(s, i + 1) = "]" THEN POk(<<"Arr", <<>>>>, i + 2)
                  ELSE LET l == PList(s, i + 1, <<>>, "]") IN
                       IF l.ok THEN POk(<<"Arr", l.t>>, l.i + 1) ELSE PFail
    [] OTHER -> PFail

\* one or more assignment-level elements separated by ","; no trailing comma;
\* stops in front of the terminator (for call arguments also in front of "...")
PList(s, i, acc, term) ==
  LET a == PAssign(s, i) IN
  IF ~a.ok THEN PFail
  ELSE LET acc2 == Append(acc, a.t) IN
       IF TK(s, a.i) = "," THEN PList(s, a.i + 1, acc2, term)
       ELSE IF TK(s, a.i) = term \/ (term = ")" /\ TK(s, a.i) = "...") THEN POk(acc2, a.i)
       ELSE PFail

\* postfix operators must start on the line of their target
PPostfix(s, i, t) ==
  LET k == TK(s, i) IN
  IF TNL(s, i) THEN POk(t, i)
  ELSE IF k \in {".", "!."} THEN
         (IF TK(s, i + 1) \in NameKinds
          THEN PPostfix(s, i + 2, <<"Sel", t, TV(s, i + 1), k = "!.">>) ELSE PFail)
  ELSE IF k = "(" THEN
         LET l == IF TK(s, i + 1) \in {")", "..."} THEN POk(<<>>, i + 1)
                  ELSE PList(s, i + 1, <<>>, ")") IN
         IF ~l.ok THEN PFail
         ELSE IF TK(s, l.i) = "..." THEN
                (IF TK(s, l.i + 1) = ")" THEN PPostfix(s, l.i + 2, <<"Call", t, l.t, TRUE>>) ELSE PFail)
              ELSE PPostfix(s, l.i + 1, <<"Call", t, l.t, FALSE>>)
  ELSE POk(t, i)

PUnary(s, i) ==
  LET k == TK(s, i) IN
  IF k \in PrefixOps THEN
     LET u == PUnary(s, i + 1) IN IF u.ok THEN POk(<<"Pre", k, u.t>>, u.i) ELSE PFail
  ELSE IF k = "typeof" THEN
     LET u == PUnary(s, i + 1) IN IF u.ok THEN POk(<<"Typeof", u.t>>, u.i) ELSE PFail
  ELSE LET p == PPrimary(s, i) IN IF p.ok THEN PPostfix(s, p.i, p.t) ELSE PFail

\* precedence climbing: take an operator only when it binds tighter than the context
\* (strictly: equal precedence goes to the caller, i.e. left associativity)
PBinRest(s, i, prec, left) ==
  LET k == TK(s, i) IN
  IF Prec(k) > prec THEN
     LET r == PBinary(s, i + 1, Prec(k)) IN
     IF r.ok THEN PBinRest(s, r.i, prec, <<"Bin", k, left, r.t>>) ELSE PFail
  ELSE POk(left, i)

PBinary(s, i, prec) ==
  LET u == PUnary(s, i) IN IF u.ok THEN PBinRest(s, u.i, prec, u.t) ELSE PFail

PAssign(s, i) ==
  LET b == PBinary(s, i, 0) IN
  IF ~b.ok THEN PFail
  ELSE IF TK(s, b.i) = "=" THEN
         LET r == PAssign(s, b.i + 1) IN
         IF r.ok THEN POk(<<"Bin", "=", b.t, r.t>>, r.i) ELSE PFail
  ELSE IF TK(s, b.i) = "?" THEN
         LET x == PAssign(s, b.i + 1) IN
         IF x.ok /\ TK(s, x.i) = ":" THEN
            LET y == PAssign(s, x.i + 1) IN
            IF y.ok THEN POk(<<"Cond", b.t, x.t, y.t>>, y.i) ELSE PFail
         ELSE PFail
  ELSE b

PCommaRest(s, i, left) ==
  IF TK(s, i) = "," THEN
     LET r == PAssign(s, i + 1) IN
     IF r.ok THEN PCommaRest(s, r.i, <<"Bin", ",", left, r.t>>) ELSE PFail
  ELSE POk(left, i)

PExpr(s, i) == LET a == PAssign(s, i) IN IF a.ok THEN PCommaRest(s, a.i, a.t) ELSE PFail

ParseTokens(s) ==
  LET e == PExpr(s, 1) IN
  IF e.ok /\ e.i = Len(s) + 1 THEN <<"OK", e.t>> ELSE <<"REJECT">>

-----------------------------------------------------------------------------
(* Declarative side.  Level: 0 comma, 1 assignment/conditional,            *)
(* 2 + Prec binary, 20 prefix/typeof, 21 postfix/primary.                  *)
Level(t) == CASE t[1] = "Bin" /\ t[2] = "," -> 0
              [] t[1] = "Bin" /\ t[2] = "=" -> 1
              [] t[1] = "Cond" -> 1
              [] t[1] = "Bin" -> 2 + Prec(t[2])
              [] t[1] \in {"Pre", "Typeof"} -> 20
              [] OTHER -> 21

RECURSIVE WF(_), WFList(_, _), Unparse(_), UnparseList(_, _)

WFList(l, j) == IF j > Len(l) THEN TRUE ELSE (WF(l[j]) /\ Level(l[j]) >= 1 /\ WFList(l, j + 1))

WF(t) ==
  CASE t[1] = "Lit" -> t[2] \in LitKinds
    [] t[1] = "Id" -> TRUE
    [] t[1] = "Paren" -> WF(t[2])
    [] t[1] = "Arr" -> WFList(t[2], 1)
    [] t[1] = "Sel" -> WF(t[2]) /\ Level(t[2]) = 21
    [] t[1] = "Call" -> WF(t[2]) /\ Level(t[2]) = 21 /\ WFList(t[3], 1)
    [] t[1] = "Pre" -> t[2] \in PrefixOps /\ WF(t[3]) /\ Level(t[3]) >= 20
    [] t[1] = "Typeof" -> WF(t[2]) /\ Level(t[2]) >= 20
    [] t[1] = "Cond" -> WF(t[2]) /\ WF(t[3]) /\ WF(t[4])
                        /\ Level(t[2]) >= 3 /\ Level(t[3]) >= 1 /\ Level(t[4]) >= 1
    [] t[1] = "Bin" /\ t[2] = "," -> WF(t[3]) /\ WF(t[4]) /\ Level(t[3]) >= 0 /\ Level(t[4]) >= 1
    [] t[1] = "Bin" /\ t[2] = "=" -> WF(t[3]) /\ WF(t[4]) /\ Level(t[3]) >= 3 /\ Level(t[4]) >= 1
    [] t[1] = "Bin" -> t[2] \in BinOps /\ WF(t[3]) /\ WF(t[4])
                       /\ Level(t[3]) >= 2 + Prec(t[2]) /\ Level(t[4]) > 2 + Prec(t[2])
    [] OTHER -> FALSE

\* the <<k, v>> spelling of a tree (no line-break flags)
T1(k, v) == << <<k, v>> >>
Op(k) == T1(k, k)
NameTok(n) == IF n \in {"true", "false", "null", "this", "ctx"} THEN T1("Kw", n)
              ELSE IF n = "typeof" THEN T1("typeof", n) ELSE T1("Id", n)

UnparseList(l, j) == IF j > Len(l) THEN <<>> ELSE
      (IF j > 1 THEN Op(",") ELSE <<>>) \o Unparse(l[j]) \o UnparseList(l, j + 1)

Unparse(t) ==
  CASE t[1] = "Lit" -> T1(t[2], t[3])
    [] t[1] = "Id" -> T1("Id", t[2])
    [] t[1] = "Paren" -> Op("(") \o Unparse(t[2]) \o Op(")")
    [] t[1] = "Arr" -> Op("[") \o UnparseList(t[2], 1) \o Op("]")
    [] t[1] = "Sel" -> Unparse(t[2]) \o Op(IF t[4] THEN "!." ELSE ".") \o NameTok(t[3])
    [] t[1] = "Call" -> Unparse(t[2]) \o Op("(") \o UnparseList(t[3], 1)
                        \o (IF t[4] THEN Op("...") ELSE <<>>) \o Op(")")
    [] t[1] = "Pre" -> Op(t[2]) \o Unparse(t[3])
    [] t[1] = "Typeof" -> T1("typeof", "typeof") \o Unparse(t[2])
    [] t[1] = "Cond" -> Unparse(t[2]) \o Op("?") \o Unparse(t[3]) \o Op(":") \o Unparse(t[4])
    [] t[1] = "Bin" -> Unparse(t[3]) \o Op(t[2]) \o Unparse(t[4])

StripNL(s) == [j \in 1..Len(s) |-> <<s[j][1], s[j][2]>>]

Sound(s, p) == p[1] = "OK" => (WF(p[2]) /\ Unparse(p[2]) = StripNL(s))

-----------------------------------------------------------------------------
(* Token spans: node n of a tree whose first token has index i covers      *)
(* tokens i .. i + Len(Unparse(n)) - 1.  Ranges(t, i) annotates every node *)
(* with <<first, last>> token indices (pre-order list of                   *)
(* <<path, kind, first, last>>), used for source ranges (C15).             *)
NTok(t) == Len(Unparse(t))

RECURSIVE Spans(_, _, _), SpansList(_, _, _, _)
SpansList(l, j, i, path) ==
  IF j > Len(l) THEN <<>>
  ELSE Spans(l[j], i + (IF j > 1 THEN 1 ELSE 0), Append(path, j))
       \o SpansList(l, j + 1, i + (IF j > 1 THEN 1 ELSE 0) + NTok(l[j]), path)

ListTok(l) == IF Len(l) = 0 THEN 0 ELSE Len(UnparseList(l, 1))

Spans(t, i, path) ==
  << <<path, t[1], i, i + NTok(t) - 1>> >> \o
  CASE t[1] \in {"Lit", "Id"} -> <<>>
    [] t[1] = "Paren" -> Spans(t[2], i + 1, Append(path, 1))
    [] t[1] = "Arr" -> SpansList(t[2], 1, i + 1, path)
    [] t[1] = "Sel" -> Spans(t[2], i, Append(path, 0))
                       \o << <<Append(path, 9), "Name", i + NTok(t) - 1, i + NTok(t) - 1>> >>       \* the member name is a node too
    [] t[1] = "Call" -> Spans(t[2], i, Append(path, 0))
                        \o SpansList(t[3], 1, i + NTok(t[2]) + 1, path)
    [] t[1] = "Pre" -> Spans(t[3], i + 1, Append(path, 1))
    [] t[1] = "Typeof" -> Spans(t[2], i + 1, Append(path, 1))
    [] t[1] = "Cond" -> Spans(t[2], i, Append(path, 1))
                        \o Spans(t[3], i + NTok(t[2]) + 1, Append(path, 2))
                        \o Spans(t[4], i + NTok(t[2]) + NTok(t[3]) + 2, Append(path, 3))
    [] t[1] = "Bin" -> Spans(t[3], i, Append(path, 1))
                       \o Spans(t[4], i + NTok(t[3]) + 1, Append(path, 2))
=============================================================================
