----------------------------- MODULE FDecimal -----------------------------
(***************************************************************************)
(* Exact decimal arithmetic on digit sequences (TLC integers are 32-bit).  *)
(* A natural is a sequence of digits, most significant first, without      *)
(* leading zeros (zero = <<>>).  A decimal is <<neg, digs, exp>> with      *)
(* value (-1)^neg * digs * 10^exp, canonical: digs has neither leading nor *)
(* trailing zeros, zero is <<FALSE, <<>>, 0>> (the sign and scale of zero  *)
(* and trailing zeros are representation, which no property pins).         *)
(***************************************************************************)
EXTENDS Integers, Sequences

Rev(s) == [i \in 1..Len(s) |-> s[Len(s) + 1 - i]]

RECURSIVE StripLead(_)
StripLead(s) == IF Len(s) > 0 /\ s[1] = 0 THEN StripLead(Tail(s)) ELSE s

\* number of trailing zeros
RECURSIVE NTrail(_, _)
NTrail(s, n) == IF n < Len(s) /\ s[Len(s) - n] = 0 THEN NTrail(s, n + 1) ELSE n

Zeros(n) == [i \in 1..n |-> 0]
PadLeft(s, n) == IF Len(s) >= n THEN s ELSE Zeros(n - Len(s)) \o s

\* ---------------------------------------------------------------- naturals
NatCmp(a, b) ==   \* -1, 0, 1 ; a, b without leading zeros
  IF Len(a) # Len(b) THEN (IF Len(a) < Len(b) THEN -1 ELSE 1)
  ELSE LET d == {i \in 1..Len(a) : a[i] # b[i]} IN
       IF d = {} THEN 0
       ELSE LET i == CHOOSE i \in d : \A j \in d : i <= j IN IF a[i] < b[i] THEN -1 ELSE 1

\* addition on equal-length little-endian sequences with carry
RECURSIVE AddLE(_, _, _, _)
AddLE(a, b, i, c) ==
  IF i > Len(a) THEN (IF c = 0 THEN <<>> ELSE <<c>>)
  ELSE LET x == a[i] + b[i] + c IN <<x % 10>> \o AddLE(a, b, i + 1, x \div 10)

NatAdd(a, b) ==
  LET n == IF Len(a) > Len(b) THEN Len(a) ELSE Len(b) IN
  StripLead(Rev(AddLE(Rev(PadLeft(a, n)), Rev(PadLeft(b, n)), 1, 0)))

RECURSIVE SubLE(_, _, _, _)
SubLE(a, b, i, br) ==
  IF i > Len(a) THEN <<>>
  ELSE LET x == a[i] - b[i] - br IN
       IF x < 0 THEN <<x + 10>> \o SubLE(a, b, i + 1, 1) ELSE <<x>> \o SubLE(a, b, i + 1, 0)

\* a - b for a >= b
NatSub(a, b) == StripLead(Rev(SubLE(Rev(a), Rev(PadLeft(b, Len(a))), 1, 0)))

RECURSIVE MulDigLE(_, _, _, _)
MulDigLE(a, d, i, c) ==
  IF i > Len(a) THEN (IF c = 0 THEN <<>> ELSE <<c>>)
  ELSE LET x == a[i] * d + c IN <<x % 10>> \o MulDigLE(a, d, i + 1, x \div 10)

NatMulDigit(a, d) == IF d = 0 \/ a = <<>> THEN <<>> ELSE Rev(MulDigLE(Rev(a), d, 1, 0))

\* schoolbook multiplication: Horner over the digits of b
RECURSIVE NatMulH(_, _, _, _)
NatMulH(a, b, i, acc) ==
  IF i > Len(b) THEN acc
  ELSE NatMulH(a, b, i + 1, NatAdd(IF acc = <<>> THEN <<>> ELSE Append(acc, 0), NatMulDigit(a, b[i])))
NatMul(a, b) == IF a = <<>> \/ b = <<>> THEN <<>> ELSE NatMulH(a, b, 1, <<>>)

\* a second, independent definition of the product: convolution and one carry pass (little-endian inside).
\* MC_Decimal checks NatMul = NatMulConv on a grid, so that the oracle's multiplication is cross-checked.
RECURSIVE ConvSum(_, _, _, _)
ConvSum(a, b, k, i) ==      \* sum of a[i] * b[k + 1 - i] over i..min(Len(a), k) (1-based, little-endian; k + 1 - i <= Len(b) by the start index)
  IF i > Len(a) \/ i > k THEN 0 ELSE a[i] * b[k + 1 - i] + ConvSum(a, b, k, i + 1)
RECURSIVE CarryPass(_, _, _)
CarryPass(c, i, carry) ==
  IF i > Len(c) THEN (IF carry = 0 THEN <<>> ELSE CarryPass(<<carry>>, 1, 0))
  ELSE LET x == c[i] + carry IN <<x % 10>> \o CarryPass(c, i + 1, x \div 10)
NatMulConv(a, b) ==
  IF a = <<>> \/ b = <<>> THEN <<>>
  ELSE LET ra == Rev(a)  rb == Rev(b)
           conv == [k \in 1..(Len(a) + Len(b) - 1) |-> ConvSum(ra, rb, k, IF k > Len(b) THEN k + 1 - Len(b) ELSE 1)]
       IN StripLead(Rev(CarryPass(conv, 1, 0)))

NatShift(a, n) == IF a = <<>> THEN <<>> ELSE a \o Zeros(n)     \* a * 10^n

\* long division: NatDivMod(a, b) = <<quotient, remainder>>, b # 0
RECURSIVE QDigit(_, _, _)
QDigit(r, b, q) == IF NatCmp(r, b) >= 0 THEN QDigit(NatSub(r, b), b, q + 1) ELSE <<q, r>>
RECURSIVE DivH(_, _, _, _, _)
DivH(a, b, i, r, q) ==
  IF i > Len(a) THEN <<StripLead(q), r>>
  ELSE LET r1 == StripLead(Append(r, a[i]))
           qd == QDigit(r1, b, 0)
       IN DivH(a, b, i + 1, qd[2], Append(q, qd[1]))
NatDivMod(a, b) == DivH(a, b, 1, <<>>, <<>>)

NatOfInt(n) ==   \* n >= 0 a TLC integer
  LET RECURSIVE F(_)
      F(m) == IF m = 0 THEN <<>> ELSE Append(F(m \div 10), m % 10)
  IN F(n)

RECURSIVE NatToInt(_, _, _)
NatToInt(a, i, acc) == IF i > Len(a) THEN acc ELSE NatToInt(a, i + 1, acc * 10 + a[i])
IntOfNat(a) == NatToInt(a, 1, 0)     \* only for small values

NatIsOdd(a) == a # <<>> /\ a[Len(a)] % 2 = 1

\* ---------------------------------------------------------------- decimals
DZero == <<FALSE, <<>>, 0>>

\* canonical form of (-1)^neg * digs * 10^exp (digs may have leading/trailing zeros)
Canon(neg, digs, exp) ==
  LET d1 == StripLead(digs) IN
  IF d1 = <<>> THEN DZero
  ELSE LET z == NTrail(d1, 0) IN <<neg, SubSeq(d1, 1, Len(d1) - z), exp + z>>

DIsZero(a) == a[2] = <<>>
DNeg(a) == IF DIsZero(a) THEN a ELSE <<~a[1], a[2], a[3]>>
DAbs(a) == <<FALSE, a[2], a[3]>>
DInt(n) == Canon(n < 0, NatOfInt(IF n < 0 THEN -n ELSE n), 0)

\* coefficients of a and b over the common exponent min(ea, eb)
MinI(x, y) == IF x < y THEN x ELSE y
MaxI(x, y) == IF x > y THEN x ELSE y
CoefAt(a, e) == NatShift(a[2], a[3] - e)

DCmpAbs(a, b) ==
  IF DIsZero(a) \/ DIsZero(b) THEN (IF DIsZero(a) /\ DIsZero(b) THEN 0 ELSE IF DIsZero(a) THEN -1 ELSE 1)
  ELSE LET ma == Len(a[2]) + a[3]  mb == Len(b[2]) + b[3] IN     \* magnitudes first: cheap
       IF ma # mb THEN (IF ma < mb THEN -1 ELSE 1)
       ELSE LET e == MinI(a[3], b[3]) IN NatCmp(CoefAt(a, e), CoefAt(b, e))

DCmp(a, b) ==
  IF DIsZero(a) /\ DIsZero(b) THEN 0
  ELSE IF DIsZero(a) THEN (IF b[1] THEN 1 ELSE -1)
  ELSE IF DIsZero(b) THEN (IF a[1] THEN -1 ELSE 1)
  ELSE IF a[1] # b[1] THEN (IF a[1] THEN -1 ELSE 1)
  ELSE IF a[1] THEN DCmpAbs(b, a) ELSE DCmpAbs(a, b)

\* exact sum
DAddExact(a, b) ==
  IF DIsZero(a) THEN b ELSE IF DIsZero(b) THEN a
  ELSE LET e == MinI(a[3], b[3])  ca == CoefAt(a, e)  cb == CoefAt(b, e) IN
       IF a[1] = b[1] THEN Canon(a[1], NatAdd(ca, cb), e)
       ELSE LET c == NatCmp(ca, cb) IN
            IF c = 0 THEN DZero
            ELSE IF c > 0 THEN Canon(a[1], NatSub(ca, cb), e)
            ELSE Canon(b[1], NatSub(cb, ca), e)

DMulExact(a, b) ==
  IF DIsZero(a) \/ DIsZero(b) THEN DZero
  ELSE Canon(a[1] # b[1], NatMul(a[2], b[2]), a[3] + b[3])

\* round half-even to P significant digits.  `sticky` says that non-zero digits follow
\* beyond digs (used by division).
RoundP(neg, digs, exp, P, sticky) ==
  LET d == StripLead(digs) IN
  IF Len(d) <= P THEN Canon(neg, d, exp)
  ELSE LET keep == SubSeq(d, 1, P)
           rest == SubSeq(d, P + 1, Len(d))
           first == rest[1]
           tailNZ == sticky \/ \E i \in 2..Len(rest) : rest[i] # 0
           up == first > 5 \/ (first = 5 /\ (tailNZ \/ keep[P] % 2 = 1))
           k2 == IF up THEN NatAdd(keep, <<1>>) ELSE keep
       IN Canon(neg, k2, exp + Len(rest))

DPrec == 34
DRound(a) == RoundP(a[1], a[2], a[3], DPrec, FALSE)

DAdd(a, b) == DRound(DAddExact(a, b))
DSub(a, b) == DRound(DAddExact(a, DNeg(b)))
DMul(a, b) == DRound(DMulExact(a, b))

\* quotient rounded half-even to DPrec digits (b # 0): scale the dividend so that the
\* integer quotient has at least DPrec + 1 digits, then round with the remainder as sticky
DQuo(a, b) ==
  IF DIsZero(a) THEN DZero
  ELSE LET s == MaxI(0, DPrec + 1 + Len(b[2]) - Len(a[2]))
           qr == NatDivMod(NatShift(a[2], s), b[2])
       IN RoundP(a[1] # b[1], qr[1], a[3] - b[3] - s, DPrec, qr[2] # <<>>)

\* remainder of truncated division, sign of the dividend (exact)
DRem(a, b) ==
  IF DIsZero(a) THEN DZero
  ELSE LET e == MinI(a[3], b[3])
           qr == NatDivMod(CoefAt(a, e), CoefAt(b, e))
       IN Canon(a[1], qr[2], e)

\* is q the DPrec-digit half-even quotient of a / b ?  (checked by multiplication, no division)
\* q = 0 is only correct for a = 0.  With q = (-1)^s * c * 10^x, c of at most DPrec digits:
\* when c has fewer than DPrec digits the quotient must be exact; otherwise |a - q*b| <= ulp/2 * |b|
\* with the tie going to the even c.
DIsQuo(a, b, q) ==
  IF DIsZero(a) THEN DIsZero(q)
  ELSE IF DIsZero(q) THEN FALSE
  ELSE /\ q[1] = (a[1] # b[1])
       /\ Len(q[2]) <= DPrec
       /\ LET qb == DMulExact(DAbs(q), DAbs(b))                 \* |q*b|
              diff == DAddExact(DAbs(a), DNeg(qb))              \* |a| - |q*b|
              cfull == NatShift(q[2], DPrec - Len(q[2]))         \* coefficient padded to DPrec digits
              ulpexp == q[3] - (DPrec - Len(q[2]))
              halfulpb == DMulExact(<<FALSE, <<5>>, ulpexp - 1>>, DAbs(b))   \* ulp/2 * |b|
              c == DCmpAbs(diff, halfulpb)
          IN IF DIsZero(diff) THEN TRUE
             ELSE c < 0 \/ (c = 0 /\ ~NatIsOdd(cfull))

\* ---------------------------------------------------------------- integers, rounding to integer
\* integer part (truncation toward zero) and whether a fraction was dropped
DTrunc(a) ==
  IF a[3] >= 0 THEN a
  ELSE IF Len(a[2]) + a[3] <= 0 THEN DZero
  ELSE Canon(a[1], SubSeq(a[2], 1, Len(a[2]) + a[3]), 0)
DIsInt(a) == a[3] >= 0 \/ DIsZero(a)
DOne == <<FALSE, <<1>>, 0>>
DFloor(a) == IF DIsInt(a) THEN a ELSE IF a[1] THEN DAddExact(DTrunc(a), DNeg(DOne)) ELSE DTrunc(a)
DCeil(a)  == IF DIsInt(a) THEN a ELSE IF a[1] THEN DTrunc(a) ELSE DAddExact(DTrunc(a), DOne)
DHalf == <<FALSE, <<5>>, -1>>
\* nearest integer, ties to even
DRoundHalfEven(a) ==
  LET f == DFloor(a)  fr == DAddExact(a, DNeg(f))  c == DCmp(fr, DHalf) IN
  IF c < 0 THEN f
  ELSE IF c > 0 THEN DAddExact(f, DOne)
  ELSE IF DIsZero(f) \/ (f[3] = 0 /\ f[2][Len(f[2])] % 2 = 0) \/ f[3] > 0 THEN f ELSE DAddExact(f, DOne)

\* ---------------------------------------------------------------- literals
\* value of a numeric literal given as bytes (digits, at most one '.', optional exponent),
\* separators already removed.
RECURSIVE TakeDigits(_, _)
TakeDigits(bs, p) == IF p <= Len(bs) /\ bs[p] >= 48 /\ bs[p] <= 57 THEN <<bs[p] - 48>> \o TakeDigits(bs, p + 1) ELSE <<>>

FromLiteral(bs) ==
  LET ip == TakeDigits(bs, 1)
      p1 == 1 + Len(ip)
      hasDot == p1 <= Len(bs) /\ bs[p1] = 46
      fp == IF hasDot THEN TakeDigits(bs, p1 + 1) ELSE <<>>
      p2 == p1 + (IF hasDot THEN 1 + Len(fp) ELSE 0)
      hasExp == p2 <= Len(bs) /\ bs[p2] \in {101, 69}
      sgn == IF hasExp /\ p2 + 1 <= Len(bs) /\ bs[p2 + 1] = 45 THEN -1 ELSE 1
      p3 == IF hasExp THEN (IF p2 + 1 <= Len(bs) /\ bs[p2 + 1] \in {43, 45} THEN p2 + 2 ELSE p2 + 1) ELSE p2
      ed == IF hasExp THEN TakeDigits(bs, p3) ELSE <<>>
      ev == sgn * IntOfNat(StripLead(ed))
  IN Canon(FALSE, ip \o fp, ev - Len(fp))

\* ---------------------------------------------------------------- binary floating point (C04)
\* A float64 is given exactly as <<neg, M, E>>: value (-1)^neg * M * 2^E, M a natural (digit sequence) below 2^53.
RECURSIVE Pow2(_)
Pow2(n) == IF n = 0 THEN <<1>> ELSE NatMulDigit(Pow2(n - 1), 2)
PowTen(n) == <<1>> \o Zeros(n)
\* |d - f| in units of 1/2 ulp of f:  F64Within(d, f, h) <=> |d - f| <= h/2 ulp ; at h = 1 a tie needs an even M
F64Within(d, f, h) ==
  IF DIsZero(d) THEN f[2] = <<>>
  ELSE /\ (f[2] # <<>> => f[1] = d[1])
       /\ LET k == d[3]  E == f[3]
              a2 == MaxI(-k, 0)  b2 == MaxI(-E, 0)
              X == NatMul(NatShift(d[2], MaxI(k, 0)), Pow2(b2))
              Y == NatMul(NatMul(f[2], Pow2(MaxI(E, 0))), PowTen(a2))
              U == NatMul(Pow2(MaxI(E, 0)), PowTen(a2))
              diff2 == NatMulDigit(IF NatCmp(X, Y) >= 0 THEN NatSub(X, Y) ELSE NatSub(Y, X), 2)
              c == NatCmp(diff2, NatMul(U, NatOfInt(h)))
          IN c < 0 \/ (c = 0 /\ (h > 1 \/ ~NatIsOdd(f[2])))
\* the stated domain of "nearest": an integer of at most 15 digits scaled by 10^k, |k| <= 22
InNearestDomain(d) == DIsZero(d) \/ (Len(d[2]) <= 15 /\ d[3] >= -22 /\ d[3] <= 22 + 15 - Len(d[2]))
IsFloat64Of(d, f) == IF InNearestDomain(d) THEN F64Within(d, f, 1) ELSE F64Within(d, f, 8)

\* decimal digits of a canonical decimal as a grammar-token value
NumV(a) == a
=============================================================================
