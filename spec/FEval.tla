------------------------------- MODULE FEval -------------------------------
(***************************************************************************)
(* Values and evaluation.                                                  *)
(*                                                                         *)
(* Values (tagged tuples, tag first):                                      *)
(*   <<"null">>  <<"bool", b>>  <<"num", neg, digits, exp>>  <<"nan">>     *)
(*   <<"inf", neg>>  <<"str", bytes>>  <<"arr", <<v...>>>>                 *)
(*   <<"map", [key |-> v]>>  <<"struct", [Field |-> v], hidden>>           *)
(*   <<"time", ...>>  <<"func", name>>  <<"ctx">>  <<"other", kind>>       *)
(* Go int / int32 / int64 / float64 data are numbers, a typed nil pointer  *)
(* is null: the value domain is what a formula can observe.                *)
(*                                                                         *)
(* Eval(t, st) evaluates tree t (FGrammar) in state st = [this, log]:      *)
(*   <<"ok", v, st'>>   value v, state after                               *)
(*   <<"err", st'>>     evaluation fails with an error                     *)
(*   <<"unspec">>       no property pins this case: any value or any       *)
(*                      error, but never a panic (absorbs what depends     *)
(*                      on it)                                             *)
(* Where the statements leave a choice open (is the unselected operand of  *)
(* && || ?? evaluated? is the right-hand side of an invalid assignment?)   *)
(* the result is pinned only when the choice cannot be observed.           *)
(***************************************************************************)
EXTENDS FGrammar, FBuiltins

EOk(v, st) == <<"ok", v, st>>
EErr(st) == <<"err", st>>
Unspec == <<"unspec">>

\* an outcome whose evaluation cannot be observed: no error, no state change
Silent(o, st) == o[1] = "ok" /\ o[3] = st

\* ---------------------------------------------------------------- integers for bit operators (C18)
\* two's-complement operators are pinned on integers below 2^53 in magnitude
TwoTo53 == <<9,0,0,7,1,9,9,2,5,4,7,4,0,9,9,2>>
IsSmallInt(v) == v[1] = "num" /\ DIsInt(DecOf(v)) /\ NatCmp(CoefAt(DecOf(v), 0), TwoTo53) < 0

\* BitsNat(bs, i): the natural denoted by the first i bits of a big-endian bit sequence
\* NatBits(a, n): bits (little-endian, n of them) of a non-negative natural < 2^63
RECURSIVE NatBits(_, _)
NatBits(a, n) == IF n = 0 THEN <<>>
                 ELSE LET qr == NatDivMod(a, <<2>>) IN
                      <<IF qr[2] = <<>> THEN 0 ELSE 1>> \o NatBits(qr[1], n - 1)
RECURSIVE BitsNat(_, _)
BitsNat(bs, i) == IF i = 0 THEN <<>>
                  ELSE NatAdd(NatMulDigit(BitsNat(bs, i - 1), 2), IF bs[i] = 1 THEN <<1>> ELSE <<>>)
\* 64-bit two's complement of an integer decimal d (|d| < 2^63)
Flip(bs) == [i \in 1..Len(bs) |-> 1 - bs[i]]
RECURSIVE IncBits(_, _)
IncBits(bs, i) == IF i > Len(bs) THEN bs
                  ELSE IF bs[i] = 0 THEN [bs EXCEPT ![i] = 1] ELSE IncBits([bs EXCEPT ![i] = 0], i + 1)
TwosOf(d) == LET mag == NatBits(CoefAt(d, 0), 64) IN IF d[1] THEN IncBits(Flip(mag), 1) ELSE mag
\* integer decimal denoted by 64 two's-complement bits (little-endian)
OfTwos(bs) == IF bs[64] = 0 THEN Canon(FALSE, BitsNat(Rev(bs), 64), 0)
              ELSE Canon(TRUE, BitsNat(Rev(IncBits(Flip(bs), 1)), 64), 0)
BitOp(op, a, b) ==
  LET x == TwosOf(DecOf(a))  y == TwosOf(DecOf(b)) IN
  NumOf(OfTwos([i \in 1..64 |-> CASE op = "&" -> (IF x[i] = 1 /\ y[i] = 1 THEN 1 ELSE 0)
                                  [] op = "|" -> (IF x[i] = 1 \/ y[i] = 1 THEN 1 ELSE 0)
                                  [] op = "^" -> (IF x[i] # y[i] THEN 1 ELSE 0)]))
BitNot(a) == NumOf(OfTwos(Flip(TwosOf(DecOf(a)))))

\* ---------------------------------------------------------------- operators
\* <<"oneof", v1, v2>> (round at a tie) is an admissible final value or array element; anything computed from it is unpinned
IsOneOf(v) == v[1] = "oneof"
PrefixOp(op, v) ==
  CASE IsOneOf(v) -> <<"u">>
    [] op = "!!" -> <<"v", Bool(Truthy(v))>>
    [] op = "!" -> IF v = Null \/ v[1] \in {"bool", "num", "nan", "inf"} THEN <<"v", Bool(~Truthy(v))>> ELSE <<"u">>
    [] op = "-" -> IF v[1] = "num" THEN <<"v", NumOf(DNeg(DecOf(v)))>> ELSE <<"u">>
    [] op = "+" -> IF v[1] = "num" THEN <<"v", v>> ELSE <<"u">>
    [] op = "~" -> IF IsSmallInt(v) THEN <<"v", BitNot(v)>> ELSE <<"u">>

Relational(op, c) == CASE op = "<" -> c < 0 [] op = ">" -> c > 0 [] op = "<=" -> c <= 0 [] op = ">=" -> c >= 0

\* two arrays or two maps of the plain kinds ([]interface{}, map[string]interface{}); containers
\* of other Go types (a third component names the type) are not pinned
SameContainer(a, b) == a[1] \in {"arr", "map"} /\ a[1] = b[1] /\ Len(a) = 2 /\ Len(b) = 2

\* <<"v", value>> | <<"e">> error | <<"u">> unspecified
BinaryOp(op, a, b) ==
  CASE op \in {"+", "-", "*", "/", "%"} ->
         IF a[1] = "num" /\ b[1] = "num" THEN
            CASE op = "+" -> <<"v", NumOf(DAdd(DecOf(a), DecOf(b)))>>
              [] op = "-" -> <<"v", NumOf(DSub(DecOf(a), DecOf(b)))>>
              [] op = "*" -> <<"v", NumOf(DMul(DecOf(a), DecOf(b)))>>
              [] op = "/" -> IF DIsZero(DecOf(b)) THEN <<"u">> ELSE <<"v", NumOf(DQuo(DecOf(a), DecOf(b)))>>
              [] op = "%" -> IF DIsZero(DecOf(b)) THEN <<"u">> ELSE <<"v", NumOf(DRem(DecOf(a), DecOf(b)))>>
         ELSE IF op = "+" /\ a[1] = "str" /\ b[1] = "str" THEN <<"v", Str(a[2] \o b[2])>>
         ELSE <<"u">>
    [] op \in {"<", ">", "<=", ">="} ->
         IF a[1] = "num" /\ b[1] = "num" THEN <<"v", Bool(Relational(op, DCmp(DecOf(a), DecOf(b))))>>
         ELSE IF a[1] = "str" /\ b[1] = "str" THEN <<"v", Bool(Relational(op, BytesCmp(a[2], b[2])))>>
         ELSE <<"u">>
    [] op \in {"===", "!=="} ->
         IF SameContainer(a, b) THEN <<"e">>      \* comparing arrays or maps (C03)
         ELSE IF a[1] \in Scalar /\ b[1] \in Scalar
              THEN <<"v", Bool(IF op = "===" THEN StrictEq(a, b) ELSE ~StrictEq(a, b))>>
         ELSE <<"u">>
    [] op \in {"==", "!="} ->
         IF SameContainer(a, b) THEN <<"e">>
         ELSE IF a[1] \in Scalar /\ a[1] = b[1]
              THEN <<"v", Bool(IF op = "==" THEN StrictEq(a, b) ELSE ~StrictEq(a, b))>>
         ELSE <<"u">>
    [] op \in {"&", "|", "^"} ->
         IF IsSmallInt(a) /\ IsSmallInt(b) THEN <<"v", BitOp(op, a, b)>> ELSE <<"u">>
    [] OTHER -> <<"u">>

\* member access (C16): v.k / v!.k ; a typed nil read through member access is plain null
DropTyped(v) == IF v[1] = "null" THEN Null ELSE v
HasKey(m, k) == k \in DOMAIN m
Member(v, k, assert) ==
  CASE v[1] = "null" -> IF assert THEN <<"e">> ELSE <<"v", Null>>
    [] v[1] = "map" -> <<"v", IF HasKey(v[2], k) THEN DropTyped(v[2][k]) ELSE Null>>
    [] v[1] = "struct" -> IF HasKey(v[2], k) THEN <<"v", DropTyped(v[2][k])>>
                          ELSE IF \E j \in 1..Len(v[3]) : v[3][j] = k THEN <<"u">> ELSE <<"e">>    \* unexported / missing field
    [] OTHER -> <<"u">>

\* a callee must be written as a name or a dotted path
RECURSIVE IsPath(_)
IsPath(t) == t[1] = "Id" \/ (t[1] = "Sel" /\ IsPath(t[2]))

\* ---------------------------------------------------------------- evaluation
RECURSIVE HoldsMap(_, _)
HoldsMap(v, m) == v = <<"map", m>> \/ (v[1] = "arr" /\ \E i \in 1..Len(v[2]) : HoldsMap(v[2][i], m))
RECURSIVE Eval(_, _), EvalList(_, _, _, _)

\* left to right; stops at the first error / unspecified element
\* <<"ok", <<values>>, st>> | <<"err", st>> | <<"unspec">>
EvalList(l, i, acc, st) ==
  IF i > Len(l) THEN <<"ok", acc, st>>
  ELSE LET o == Eval(l[i], st) IN
       IF o[1] = "ok" THEN EvalList(l, i + 1, Append(acc, o[2]), o[3]) ELSE o

Lift(r, st) == CASE r[1] = "v" -> EOk(r[2], st) [] r[1] = "e" -> EErr(st) [] OTHER -> Unspec

LitValue(k, v) ==
  CASE k = "Num" -> NumOf(Canon(v[1], v[2], v[3]))     \* spelling (trailing zeros) is not value
    [] k = "Str" -> Str(v)
    [] v = "true" -> Bool(TRUE)
    [] v = "false" -> Bool(FALSE)
    [] v = "null" -> Null
    [] v = "this" -> <<"this">>
    [] v = "ctx" -> <<"ctx">>

Bind(m, k, v) == [x \in (DOMAIN m) \cup {k} |-> IF x = k THEN v ELSE m[x]]

IsLocalName(n) == n \in LocalNames    \* names with the "$" prefix (CONSTANT of the model)

Eval(t, st) ==
  CASE t[1] = "Lit" ->
         LET v == LitValue(t[2], t[3]) IN
         IF v = <<"this">> THEN EOk(<<"map", st.this>>, st) ELSE EOk(v, st)
    [] t[1] = "Id" ->
         IF t[2] \in BuiltinNames THEN EOk(<<"func", t[2]>>, st)
         \* a typed nil number (a nil *decimal.Big in the data) is a value nothing is pinned about: reading it leaves
         \* the whole evaluation open (value or error), only totality remains
         ELSE IF HasKey(st.this, t[2]) THEN (IF st.this[t[2]] = <<"other", "nilbig">> THEN Unspec ELSE EOk(st.this[t[2]], st))
         ELSE EOk(Null, st)
    [] t[1] = "Paren" -> Eval(t[2], st)
    [] t[1] = "Arr" ->
         LET l == EvalList(t[2], 1, <<>>, st) IN
         IF l[1] # "ok" THEN l
         ELSE IF \E k \in 1..Len(l[2]) : l[2][k][1] = "strnum" THEN Unspec       \* symbolic text: not a comparable element
         ELSE EOk(Arr(l[2]), l[3])
    [] t[1] = "Pre" ->
         LET o == Eval(t[3], st) IN
         IF o[1] # "ok" THEN o ELSE Lift(PrefixOp(t[2], o[2]), o[3])
    [] t[1] = "Typeof" ->
         LET o == Eval(t[2], st) IN IF o[1] = "err" THEN o ELSE Unspec
    [] t[1] = "Sel" ->
         LET o == Eval(t[2], st) IN
         IF o[1] # "ok" THEN o ELSE Lift(Member(o[2], t[3], t[4]), o[3])
    [] t[1] = "Cond" ->
         LET c == Eval(t[2], st) IN
         IF c[1] # "ok" THEN c
         ELSE IF IsOneOf(c[2]) THEN Unspec
         ELSE IF Truthy(c[2]) THEN Eval(t[3], c[3]) ELSE Eval(t[4], c[3])
    [] t[1] = "Bin" /\ t[2] = "=" ->
         IF t[3][1] = "Id" /\ IsLocalName(t[3][2]) THEN
            LET r == Eval(t[4], st) IN
            IF r[1] # "ok" THEN r
            \* the values of this specification are trees; a local bound to the data map itself (or to an array holding it)
            \* makes the map reachable from itself, which a tree cannot say: nothing is pinned from there on (totality only)
            ELSE IF HoldsMap(r[2], r[3].this) THEN Unspec
            ELSE EOk(r[2], [r[3] EXCEPT !.this = Bind(r[3].this, t[3][2], r[2])])
         ELSE \* invalid target: an error; whether the right-hand side runs is not pinned
            LET r == Eval(t[4], st) IN
            IF Silent(r, st) THEN EErr(st) ELSE Unspec
    [] t[1] = "Bin" /\ t[2] = "," ->
         LET a == Eval(t[3], st) IN
         IF a[1] # "ok" THEN a ELSE Eval(t[4], a[3])
    [] t[1] = "Bin" /\ t[2] \in {"&&", "||", "??"} ->
         LET a == Eval(t[3], st) IN
         IF a[1] # "ok" THEN a
         ELSE IF IsOneOf(a[2]) THEN Unspec
         ELSE LET takeLeft == CASE t[2] = "&&" -> ~Truthy(a[2])
                                [] t[2] = "||" -> Truthy(a[2])
                                [] t[2] = "??" -> ~IsNullV(a[2])
                  b == Eval(t[4], a[3])
              IN IF takeLeft THEN (IF Silent(b, a[3]) THEN EOk(a[2], a[3]) ELSE Unspec)
                 ELSE b
    [] t[1] = "Bin" ->
         LET a == Eval(t[3], st) IN
         IF a[1] # "ok" THEN a
         ELSE LET b == Eval(t[4], a[3]) IN
              IF b[1] # "ok" THEN b ELSE Lift(BinaryOp(t[2], a[2], b[2]), b[3])
    [] t[1] = "Call" ->
         LET f == Eval(t[2], st) IN
         IF f[1] # "ok" THEN f
         ELSE IF ~IsPath(t[2]) THEN (IF f[3] = st THEN EErr(st) ELSE Unspec)
         ELSE LET as == EvalList(t[3], 1, <<>>, f[3]) IN
              IF as[1] # "ok" THEN as
              ELSE IF f[2][1] # "func" THEN
                     (IF as[3] = f[3] THEN EErr(as[3]) ELSE Unspec)   \* not a function: an error (C03)
              ELSE IF \E k \in 1..Len(as[2]) : IsOneOf(as[2][k]) THEN Unspec
              ELSE IF f[2][2] # "toFloat" /\ \E k \in 1..Len(as[2]) : as[2][k][1] = "strnum" THEN Unspec
              ELSE LET r == ApplyFunc(f[2][2], as[2], t[4], as[3].log) IN
                   \* r = <<"v", value, log'>> | <<"e", log'>> | <<"u">>
                   CASE r[1] = "v" -> EOk(r[2], [as[3] EXCEPT !.log = r[3]])
                     [] r[1] = "e" -> EErr([as[3] EXCEPT !.log = r[2]])
                     [] OTHER -> Unspec

\* a top-level evaluation result as the caller sees it (C04: the float64 handed back is
\* decided separately); the final map and the host-call log are part of the observation
\* a symbolic "text that parses back to d" (toString of a number) is not a comparable final value
\* the final value is handed to the caller through a conversion; for a typed nil number that step is not pinned
Outcome(t, st) == LET o == Eval(t, st) IN
                  IF o[1] = "ok" /\ (o[2][1] = "strnum" \/ o[2] = <<"other", "nilbig">>) THEN Unspec ELSE o
=============================================================================
