------------------------------ MODULE FLexer ------------------------------
(***************************************************************************)
(* The lexical grammar of the formula language, stated declaratively on    *)
(* byte sequences:                                                         *)
(*   - trivia = maximal run of whitespace / line breaks;                   *)
(*   - operators: the longest lexeme of OpTable that is a prefix;          *)
(*   - numbers: maximal match of  D ['.' [D]] [Exp] | '.' D [Exp],         *)
(*       D = digit+ ('_' digit+)*,  Exp = (e|E) [+|-] D;                   *)
(*   - strings: quote ... same quote, escape table; no raw line break;     *)
(*   - identifiers: IdStart IdPart*, keywords are whole words;             *)
(*   - anything else: one code point of kind "Unknown".                    *)
(* NextToken(t, p) = <<k, start, tpos, end, val, nl, st>>  (0-based byte   *)
(* offsets, end exclusive; p is the 1-based index where the token's        *)
(* leading trivia starts).  st = "ok": kind, extent and value are pinned;  *)
(* st = "bad": a malformed lexeme starts here - the formula must be        *)
(* rejected, the extent of the token is not pinned; st = "free": a corner  *)
(* no property pins (unknown / malformed escape, line continuation).       *)
(***************************************************************************)
EXTENDS FChars, FDecimal

\* ordered longest first
OpTable == <<
  << <<61,61,61>>, "===" >>, << <<33,61,61>>, "!==" >>, << <<46,46,46>>, "..." >>,
  << <<61,61>>, "==" >>, << <<33,61>>, "!=" >>, << <<33,46>>, "!." >>, << <<33,33>>, "!!" >>,
  << <<38,38>>, "&&" >>, << <<124,124>>, "||" >>, << <<63,63>>, "??" >>,
  << <<60,61>>, "<=" >>, << <<62,61>>, ">=" >>,
  << <<40>>, "(" >>, << <<41>>, ")" >>, << <<91>>, "[" >>, << <<93>>, "]" >>,
  << <<46>>, "." >>, << <<44>>, "," >>, << <<60>>, "<" >>, << <<62>>, ">" >>,
  << <<61>>, "=" >>, << <<33>>, "!" >>, << <<43>>, "+" >>, << <<45>>, "-" >>,
  << <<42>>, "*" >>, << <<47>>, "/" >>, << <<37>>, "pct" >>, << <<38>>, "&" >>,
  << <<124>>, "|" >>, << <<94>>, "^" >>, << <<126>>, "~" >>, << <<63>>, "?" >>, << <<58>>, ":" >> >>

\* "pct" only avoids the percent sign inside TLC messages; the token kind is "%"
KindOfOp(n) == IF n = "pct" THEN "%" ELSE n

KeywordTable == <<
  << <<116,114,117,101>>, "Kw" >>, << <<102,97,108,115,101>>, "Kw" >>, << <<110,117,108,108>>, "Kw" >>,
  << <<116,104,105,115>>, "Kw" >>, << <<99,116,120>>, "Kw" >>, << <<116,121,112,101,111,102>>, "typeof" >> >>

IsPrefixAt(bs, t, p) == p + Len(bs) - 1 <= Len(t) /\ \A i \in 1..Len(bs) : t[p + i - 1] = bs[i]

Tok(k, p, q, e, val, nl, st) == <<k, p - 1, q - 1, e - 1, val, nl, st>>

\* trivia: Skip(t, p, nl) = <<first non-trivia index, saw a line break>>
RECURSIVE Skip(_, _, _)
Skip(t, p, nl) ==
  IF p > Len(t) THEN <<p, nl>>
  ELSE LET d == Decode(t, p) IN
       IF IsLB(d[1]) THEN Skip(t, p + d[2], TRUE)
       ELSE IF IsWS(d[1]) THEN Skip(t, p + d[2], nl)
       ELSE <<p, nl>>

-----------------------------------------------------------------------------
\* numbers
RECURSIVE DRun(_, _), DGroup(_, _)
DRun(t, p) == IF IsDigit(B(t, p)) THEN DRun(t, p + 1) ELSE p
\* end of D = digit+ ('_' digit+)* starting at p (p itself if no digit there)
DGroup(t, p) ==
  IF ~IsDigit(B(t, p)) THEN p
  ELSE LET q == DRun(t, p) IN
       IF B(t, q) = 95 /\ IsDigit(B(t, q + 1)) THEN DGroup(t, q + 1) ELSE q

NumEnd(t, p) ==
  LET q1 == IF B(t, p) = 46 THEN DGroup(t, p + 1)
            ELSE LET q0 == DGroup(t, p) IN IF B(t, q0) = 46 THEN DGroup(t, q0 + 1) ELSE q0
      r0 == IF B(t, q1) \in {101, 69} THEN q1 + 1 ELSE 0
      r  == IF r0 > 0 /\ B(t, r0) \in {43, 45} THEN r0 + 1 ELSE r0
      q2 == IF r > 0 THEN DGroup(t, r) ELSE 0
  IN IF r > 0 /\ q2 > r THEN q2 ELSE q1

RECURSIVE DropUnderscore(_, _, _)
DropUnderscore(t, p, e) ==
  IF p >= e THEN <<>>
  ELSE (IF t[p] = 95 THEN <<>> ELSE <<t[p]>>) \o DropUnderscore(t, p + 1, e)

\* number of significant digits of the exponent part of a literal (0 when there is none)
ExpDigits(bs) ==
  LET ps == {i \in 1..Len(bs) : bs[i] \in {101, 69}} IN
  IF ps = {} THEN 0
  ELSE LET p == CHOOSE i \in ps : TRUE
           q == IF p + 1 <= Len(bs) /\ bs[p + 1] \in {43, 45} THEN p + 2 ELSE p + 1
       IN Len(StripLead([i \in 1..(Len(bs) - q + 1) |-> bs[q + i - 1] - 48]))

NumTok(t, p0, q, nl) ==
  LET e == NumEnd(t, q) IN
  IF e <= Len(t) /\ IsIdStart(Decode(t, e)[1])
  THEN Tok("Num", p0, q, e, <<>>, nl, "bad")
  ELSE LET v == DropUnderscore(t, q, e) IN
       \* an exponent of five or more digits is outside every decimal range: magnitude not pinned
       Tok("Num", p0, q, e, v, nl, IF ExpDigits(v) > 4 THEN "free" ELSE "ok")

-----------------------------------------------------------------------------
\* strings.  SScan(t, p, quote, acc) = <<status, end index (after the quote), value>>
SimpleEscape(c) ==
  CASE c = 48 -> 0 [] c = 98 -> 8 [] c = 116 -> 9 [] c = 110 -> 10 [] c = 118 -> 11
    [] c = 102 -> 12 [] c = 114 -> 13 [] c = 39 -> 39 [] c = 34 -> 34 [] c = 92 -> 92
    [] OTHER -> -1

RECURSIVE SScan(_, _, _, _)
SScan(t, p, quote, acc) ==
  IF p > Len(t) THEN <<"bad", p, acc>>                       \* open at end of input
  ELSE LET d == Decode(t, p)  c == d[1] IN
   IF c = quote THEN <<"ok", p + 1, acc>>
   ELSE IF IsLB(c) THEN <<"bad", p, acc>>                    \* open at a line break
   ELSE IF c # 92 THEN SScan(t, p + d[2], quote, acc \o SubSeq(t, p, p + d[2] - 1))
   ELSE IF p + 1 > Len(t) THEN <<"bad", p + 1, acc>>
   ELSE LET x == Decode(t, p + 1)  ec == x[1] IN
     IF SimpleEscape(ec) >= 0 THEN SScan(t, p + 2, quote, Append(acc, SimpleEscape(ec)))
     ELSE IF ec = 120 THEN                                   \* \xHH
        (IF IsHex(B(t, p + 2)) /\ IsHex(B(t, p + 3))
         THEN SScan(t, p + 4, quote, acc \o Encode(HexVal(t[p + 2]) * 16 + HexVal(t[p + 3])))
         ELSE <<"free", p, acc>>)
     ELSE IF ec = 117 THEN                                   \* \uHHHH
        (IF IsHex(B(t, p + 2)) /\ IsHex(B(t, p + 3)) /\ IsHex(B(t, p + 4)) /\ IsHex(B(t, p + 5))
         THEN LET cp == HexVal(t[p + 2]) * 4096 + HexVal(t[p + 3]) * 256
                        + HexVal(t[p + 4]) * 16 + HexVal(t[p + 5]) IN
              IF IsSurrogate(cp) THEN <<"free", p, acc>>
              ELSE SScan(t, p + 6, quote, acc \o Encode(cp))
         ELSE <<"free", p, acc>>)
     ELSE <<"free", p, acc>>                                 \* unknown escape, line continuation

StrTok(t, p0, q, nl) ==
  LET r == SScan(t, q + 1, t[q], <<>>) IN
  Tok("Str", p0, q, r[2], IF r[1] = "ok" THEN r[3] ELSE <<>>, nl, r[1])

-----------------------------------------------------------------------------
\* identifiers and keywords
RECURSIVE IdEnd(_, _)
IdEnd(t, p) ==
  IF p > Len(t) THEN p
  ELSE LET d == Decode(t, p) IN IF IsIdPart(d[1]) THEN IdEnd(t, p + d[2]) ELSE p

IdTok(t, p0, q, nl) ==
  LET e == IdEnd(t, q)
      w == SubSeq(t, q, e - 1)
      kw == {i \in 1..Len(KeywordTable) : KeywordTable[i][1] = w}
  IN Tok(IF kw = {} THEN "Id" ELSE KeywordTable[CHOOSE i \in kw : TRUE][2], p0, q, e, w, nl, "ok")

\* operators: first (= longest) table entry that is a prefix at q
OpTok(t, p0, q, nl) ==
  LET hits == {i \in 1..Len(OpTable) : IsPrefixAt(OpTable[i][1], t, q)} IN
  IF hits = {} THEN
     Tok("Unknown", p0, q, q + Decode(t, q)[2], <<>>, nl, "ok")
  ELSE LET i == CHOOSE i \in hits : \A j \in hits : i <= j IN
       Tok(KindOfOp(OpTable[i][2]), p0, q, q + Len(OpTable[i][1]), <<>>, nl, "ok")

NextToken(t, p) ==
  LET sk == Skip(t, p, FALSE)  q == sk[1]  nl == sk[2] IN
  IF q > Len(t) THEN Tok("EOF", p, q, q, <<>>, nl, "ok")
  ELSE LET c == Decode(t, q)[1] IN
    IF IsDigit(c) \/ (c = 46 /\ IsDigit(B(t, q + 1))) THEN NumTok(t, p, q, nl)
    ELSE IF c = 34 \/ c = 39 THEN StrTok(t, p, q, nl)
    ELSE IF IsIdStart(c) THEN IdTok(t, p, q, nl)
    ELSE OpTok(t, p, q, nl)

\* the token sequence of a text up to (not including) the first lexeme that is
\* not "ok"; the EOF token is included when reached.
\* LexAll(t) = [toks, st, at]: st = "ok" | "bad" | "free", at = 0-based offset where the
\* offending token starts (its leading trivia), Len(t) when st = "ok".
RECURSIVE LexFrom(_, _, _)
LexFrom(t, p, acc) ==
  LET k == NextToken(t, p) IN
  IF k[7] # "ok" THEN [toks |-> acc, st |-> k[7], at |-> k[2]]
  ELSE IF k[1] = "EOF" THEN [toks |-> Append(acc, k), st |-> "ok", at |-> Len(t)]
  ELSE LexFrom(t, k[4] + 1, Append(acc, k))
LexAll(t) == LexFrom(t, 1, <<>>)

-----------------------------------------------------------------------------
\* properties of the lexical specification itself (checked by TLC on every text)
TokenWellFormed(t, k) ==
  /\ k[2] <= k[3] /\ k[3] <= k[4] /\ k[4] <= Len(t)
  /\ (k[1] # "EOF" => k[3] < k[4])                       \* each token advances
  /\ (k[1] = "EOF" => k[4] = Len(t) /\ k[3] = k[4])
  /\ Skip(t, k[2] + 1, FALSE)[1] = k[3] + 1              \* only trivia before the text

Tiling(t, lx) ==
  /\ \A i \in 1..Len(lx.toks) : TokenWellFormed(t, lx.toks[i])
  /\ (Len(lx.toks) > 0 => lx.toks[1][2] = 0)
  /\ \A i \in 1..(Len(lx.toks) - 1) : lx.toks[i + 1][2] = lx.toks[i][4]   \* contiguous, in order
  /\ (lx.st = "ok" => lx.toks[Len(lx.toks)][1] = "EOF")

\* longest match: no longer operator lexeme starts where an operator token starts
LongestMatch(t, lx) ==
  \A i \in 1..Len(lx.toks) :
    LET k == lx.toks[i] IN
    (k[1] \notin {"EOF", "Num", "Str", "Id", "Kw", "typeof", "Unknown"}) =>
       ~ \E j \in 1..Len(OpTable) :
            IsPrefixAt(OpTable[j][1], t, k[3] + 1) /\ Len(OpTable[j][1]) > k[4] - k[3]

\* grammar tokens <<k, v, nl>> of a lexed text (without the EOF token)
\* a Num token carries the decimal number its lexeme denotes (canonical <<neg, digits, exp>>),
\* a Str token its decoded bytes, names are strings
GTok(k) == <<k[1], IF k[1] = "Num" THEN FromLiteral(k[5])
                   ELSE IF k[1] = "Str" THEN k[5]
                   ELSE IF k[1] \in {"Id", "Kw", "typeof"} THEN BytesToStr(k[5]) ELSE k[1], k[6]>>
GToks(toks) == [i \in 1..(Len(toks) - 1) |-> GTok(toks[i])]
=============================================================================
