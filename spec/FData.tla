------------------------------- MODULE FData -------------------------------
(***************************************************************************)
(* Caller data as *descriptions*: the driver builds the Go value a         *)
(* description names, the specification normalises the same description    *)
(* to the value a formula observes (Norm), so both start from one object.  *)
(*   <<"nil">> <<"nilptr">> <<"bool", b>> <<"str", bytes>>                 *)
(*   <<"int", n>> <<"int32", n>> <<"int64", neg, digits>> (digits MSB)     *)
(*   <<"f64", neg, digits, exp>> (the float64 that prints as this decimal) *)
(*   <<"f64nan">> <<"f64inf", neg>> <<"dec", neg, digits, exp>>            *)
(*   <<"uint", n>> <<"map", [k |-> desc]>> <<"tmapint", [k |-> n]>>        *)
(*   <<"imap">> <<"struct", [Field |-> desc], hiddenNames>>                *)
(*   <<"ptrstruct", ...>> <<"slice", <<desc...>>>> <<"strs", <<bytes>>>>   *)
(*   <<"time", ...>> <<"func", name>>                                      *)
(***************************************************************************)
EXTENDS FValues

RECURSIVE Norm(_)
Norm(d) ==
  CASE d[1] = "nil" -> Null
    [] d[1] = "nilptr" -> TNil
    [] d[1] = "nilbig" -> <<"other", "nilbig">>       \* a typed nil *decimal.Big: nothing is pinned, only totality
    [] d[1] = "bool" -> Bool(d[2])
    [] d[1] = "str" -> Str(d[2])
    [] d[1] \in {"int", "int32"} -> NumI(d[2])
    [] d[1] = "int64" -> NumOf(Canon(d[2], d[3], 0))
    [] d[1] \in {"f64", "dec"} -> NumOf(Canon(d[2], d[3], d[4]))
    [] d[1] = "f64nan" -> <<"nan">>
    [] d[1] = "f64inf" -> <<"inf", d[2]>>
    [] d[1] = "nilmap" -> <<"map", <<>>>>          \* a nil map is an (empty) map, not null
    [] d[1] = "nilslice" -> <<"arr", <<>>>>
    [] d[1] = "uint" -> <<"other", "uint">>
    [] d[1] = "imap" -> <<"other", "imap">>
    [] d[1] = "map" -> <<"map", [k \in DOMAIN d[2] |-> Norm(d[2][k])]>>
    [] d[1] = "tmapint" -> <<"map", [k \in DOMAIN d[2] |-> NumI(d[2][k])], "tmapint">>
    [] d[1] = "struct" -> <<"struct", [k \in DOMAIN d[2] |-> Norm(d[2][k])], d[3]>>   \* d[3]: the names of the unexported fields, a sequence
    [] d[1] = "ptrstruct" -> <<"other", "ptrstruct">>
    [] d[1] = "slice" -> Arr([i \in 1..Len(d[2]) |-> Norm(d[2][i])])
    \* the elements of a typed Go slice stay raw Go values until something converts them: <<"goint", n>>
    \* two Go struct types with the same printed name and different layouts
    [] d[1] = "rowA" -> <<"struct", [Name |-> Str(<<98,111,108,116>>), Qty |-> NumOf(DInt(7))], <<>>>>
    [] d[1] = "rowB" -> <<"struct", [Qty |-> NumOf(DInt(40)), Code |-> Str(<<65,51>>), Name |-> Str(<<110,117,116>>)], <<>>>>
    [] d[1] = "tmapstr" -> <<"map", [k \in DOMAIN d[2] |-> Str(d[2][k])], "map[string]string">>
    [] d[1] = "ints" -> <<"arr", [i \in 1..Len(d[2]) |-> <<"goint", d[2][i]>>], "[]int">>
    [] d[1] = "strs" -> <<"arr", [i \in 1..Len(d[2]) |-> Str(d[2][i])], "strs">>
    [] d[1] = "time" -> d
    [] d[1] = "func" -> d

\* a data map description is a function name -> description
NormMap(m) == [k \in DOMAIN m |-> Norm(m[k])]
=============================================================================
