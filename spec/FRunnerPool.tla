---------------------------- MODULE FRunnerPool ----------------------------
(* The world of the runner models and traces: formula pool, caller maps,   *)
(* keys and values (shared by MC_Runner and Trace_Runner and mirrored by   *)
(* the driver's runner family).                                            *)
EXTENDS FRunner, TLC

N1 == <<"Lit", "Num", DInt(1)>>
IdT(n) == <<"Id", n>>
AsgT(n, e) == <<"Bin", "=", IdT(n), e>>
\* formula pool: read and assign locals and fields, read `this`, fail after an assignment,
\* try to read an auxiliary key
Formulas == <<
  AsgT("$a", IdT("x")),                                             \* $a = x
  <<"Arr", <<IdT("$a"), IdT("x"), IdT("$b")>>>>,                    \* [$a, x, $b]
  AsgT("$b", <<"Arr", <<IdT("$a")>>>>),                             \* $b = [$a]
  <<"Bin", ",", AsgT("$a", N1), <<"Call", IdT("fail"), <<N1>>, FALSE>>>>,   \* $a = 1, fail(1)
  <<"Sel", <<"Lit", "Kw", "this">>, "$a", FALSE>>,                  \* this.$a
  IdT("k"),                                                         \* k   (an auxiliary key)
  AsgT("x", N1),                                                    \* x = 1   (error, no effect)
  AsgT("$b", <<"Bin", "+", IdT("$a"), IdT("x")>>),                  \* $b = $a + x
  <<"Bin", "??", IdT("x"), <<"Paren", AsgT("$b", N1)>>>>,           \* x ?? ($b = 1) : the unselected operand is evaluated, its local stays
  AsgT("$a", AsgT("$b", N1))                                        \* $a = $b = 1 : two locals from one formula, also on a runner without a map
>>

HeapDesc == [ m1 |-> [x |-> <<"int64", FALSE, <<9,0,0,7,1,9,9,2,5,4,7,4,0,9,9,3>>>>,     \* 2^53 + 1: a local must keep it exactly
                        fail |-> <<"func", "fail">>],
              m2 |-> [x |-> <<"int", 2>>, fail |-> <<"func", "fail">>] @@ ("$a" :> <<"int", 9>>),
              m3 |-> <<>> ]          \* a caller's map that is installed while still empty
MapIds == {"m1", "m2", "m3"}
Keys == {"x", "$a"}
AuxKeys == {"k", "x"}
V5 == <<"int", 5>>
V7 == <<"str", <<55>>>>

InitHeap == [i \in MapIds |-> NormMap(HeapDesc[i])]
InitRun(Rs) == [r \in Rs |-> [this |-> <<"unset">>, aux |-> EmptyMap]]
Proj(h, rn, Rs) == [heap |-> h, runs |-> [r \in Rs |-> [this |-> CurMap(h, rn[r]), aux |-> rn[r].aux]]]

\* the effect of one operation: <<result, heap', run'>> ; result <<"unspec">> when not pinned
ApplyOp(h, rn, op) ==
  LET r == op[2] IN
  CASE op[1] = "SetThis" -> LET x == DoSetThis(h, rn[r], op[3]) IN << <<"none">>, x[1], [rn EXCEPT ![r] = x[2]] >>
    [] op[1] = "SetThisValue" -> LET x == DoSetThisValue(h, rn[r], op[3], Norm(op[4])) IN << <<"none">>, x[1], [rn EXCEPT ![r] = x[2]] >>
    [] op[1] = "Resolve" -> LET x == DoResolve(h, rn[r], Formulas[op[3]]) IN << x[1], x[2], [rn EXCEPT ![r] = x[3]] >>
    [] op[1] = "Set" -> << <<"none">>, h, [rn EXCEPT ![r] = DoSet(rn[r], op[3], Norm(op[4]))] >>
    [] op[1] = "Get" -> << <<"val", DoGet(rn[r], op[3])>>, h, rn >>
=============================================================================
