------------------------------- MODULE FCall -------------------------------
(* The host-function bridge (C11): a Go function found in the data is       *)
(* called exactly once with the formula's arguments converted to its        *)
(* declared parameter types, or not at all.                                 *)
(*   sig  = <<ctx, <<param kinds>>, variadic>>                              *)
(*   kinds: "string" "bool" "int" "int8" "int16" "int32" "int64" "float32"  *)
(*          "float64" "any" "big" "time" "strs" "ints" "anys" "smap"        *)
(*          "appctx": an interface type of the application that happens to  *)
(*          be *named* Context - an ordinary declared parameter, not the    *)
(*          leading context.Context (that one is sig[1])                    *)
(*   CallOutcome(sig, args, spread) =                                       *)
(*      <<"called", <<received arguments>>>>  (<<"ANY">> = value not pinned)*)
(*    | <<"notcalled">>   evaluation fails with an error, no invocation     *)
(*    | <<"u">>           not pinned (either of the above, never a panic)   *)
EXTENDS FValues

IntKinds == {"int", "int8", "int16", "int32", "int64"}
FloatKinds == {"float32", "float64"}
\* range of the integer kinds as decimals: truncation is pinned only inside it
IntMax(k) == CASE k = "int8" -> <<1,2,7>> [] k = "int16" -> <<3,2,7,6,7>> [] k = "int32" -> <<2,1,4,7,4,8,3,6,4,7>>
               [] OTHER -> <<9,0,0,7,1,9,9,2,5,4,7,4,0,9,9,1>>          \* int / int64: pinned below 2^53
\* binary fractions (exactly representable as float32 and float64) keep their value
IsDyadicSmall(d) == DIsZero(d) \/ (d[3] >= -6 /\ Len(d[2]) + d[3] <= 6)     \* up to 6 integer digits, 6 decimals: a candidate
ExactHalfSteps(d) == \* d * 64 is an integer below 2^24: representable in both float kinds
  LET x == DMulExact(d, <<FALSE, <<6,4>>, 0>>) IN DIsInt(x) /\ NatCmp(CoefAt(DAbs(x), 0), <<1,6,7,7,7,2,1,6>>) < 0

\* what an observer of the received Go value sees: raw Go ints are those numbers
RECURSIVE Observed(_)
Observed(v) == IF v[1] = "goint" THEN NumOf(DInt(v[2]))
               ELSE IF v[1] = "arr" THEN (IF Len(v) = 3 THEN <<"arr", [i \in 1..Len(v[2]) |-> Observed(v[2][i])], v[3]>>
                                          ELSE <<"arr", [i \in 1..Len(v[2]) |-> Observed(v[2][i])]>>)
               ELSE v
RECURSIVE Conv1(_, _), ConvList(_, _, _, _)
\* <<"ok", received>> | <<"err">> | <<"u">>
Conv1(kind, v) ==
  \* a raw Go int (element of a typed slice): to integer and float parameters as the number it is, to interface parameters
  \* as itself (observed as that number); to string or *decimal.Big parameters the statement does not say (today:
  \* string(rune(n)), resp. refused) - not pinned
  CASE v[1] = "goint" -> IF kind \in IntKinds \cup FloatKinds \cup {"any"} THEN Conv1(kind, NumOf(DInt(v[2]))) ELSE <<"u">>
    [] kind = "any" -> <<"ok", IF v[1] = "null" THEN Null ELSE Observed(v)>>
    \* anything formats; a boolean as true / false, a whole number of at most 15 digits as its digits, other texts are not pinned
    [] kind = "string" -> IF v[1] = "str" THEN <<"ok", v>>
                          ELSE IF v[1] = "bool" THEN <<"ok", Str(IF v[2] THEN <<116,114,117,101>> ELSE <<102,97,108,115,101>>)>>
                          ELSE IF v[1] = "num" /\ v[4] = 0 /\ Len(v[3]) <= 15 /\ Len(v[3]) >= 1
                               THEN <<"ok", Str((IF v[2] THEN <<45>> ELSE <<>>) \o [i \in 1..Len(v[3]) |-> 48 + v[3][i]])>>
                          ELSE <<"ok", <<"ANY">>>>
    [] kind \in IntKinds ->
         IF v[1] = "num" THEN
            LET t == DTrunc(DecOf(v)) IN
            IF NatCmp(CoefAt(DAbs(t), 0), IntMax(kind)) <= 0 THEN <<"ok", NumOf(t)>> ELSE <<"u">>
         ELSE IF v[1] \in {"str", "arr", "map", "time"} THEN <<"err">> ELSE <<"u">>
    [] kind \in FloatKinds ->
         IF v[1] = "num" THEN (IF IsDyadicSmall(DecOf(v)) /\ ExactHalfSteps(DecOf(v)) THEN <<"ok", v>> ELSE <<"ok", <<"ANY">>>>)
         ELSE IF v[1] \in {"str", "arr", "map", "time"} THEN <<"err">> ELSE <<"u">>
    [] kind = "bool" -> IF v[1] = "bool" THEN <<"ok", v>> ELSE <<"u">>
    [] kind = "big" -> IF v[1] = "num" THEN <<"ok", v>> ELSE IF v[1] \in {"str", "arr", "map", "time", "bool"} THEN <<"err">> ELSE <<"u">>
    [] kind = "time" -> IF v[1] = "time" THEN <<"ok", v>> ELSE <<"err">>          \* identical type only; null is not a time
    [] kind \in {"strs", "ints", "anys", "i32s"} ->
         IF v[1] # "arr" THEN (IF v[1] = "null" THEN <<"u">> ELSE <<"err">>)
         ELSE LET ek == CASE kind = "strs" -> "string" [] kind = "ints" -> "int" [] kind = "i32s" -> "int32" [] OTHER -> "any"
                  r == ConvList(ek, v[2], 1, <<>>)
              IN IF r[1] # "ok" THEN r
                 ELSE <<"ok", CASE kind = "strs" -> <<"arr", r[2], "strs">> [] kind = "ints" -> <<"arr", r[2], "[]int">> [] kind = "i32s" -> <<"arr", r[2], "[]int32">> [] OTHER -> <<"arr", r[2]>>>>
    [] kind = "appctx" -> IF v[1] = "null" THEN <<"ok", Null>> ELSE <<"u">>      \* null is the nil interface; what else fits is not pinned
    [] kind = "smap" -> IF v[1] = "map" THEN <<"ok", <<"ANY">>>> ELSE IF v[1] = "null" THEN <<"u">> ELSE <<"u">>
ConvList(ek, l, i, acc) ==
  IF i > Len(l) THEN <<"ok", acc>>
  ELSE LET c == Conv1(ek, l[i]) IN IF c[1] # "ok" THEN c ELSE ConvList(ek, l, i + 1, Append(acc, c[2]))

KindAt(sig, i) == IF i <= Len(sig[2]) THEN sig[2][i] ELSE sig[2][Len(sig[2])]
\* element kind of the variadic tail
TailKind(sig) == sig[2][Len(sig[2])]

CallOutcome(sig, args0, spread) ==
  LET np == Len(sig[2]) IN
  IF spread /\ ~sig[3] THEN <<"notcalled">>
  ELSE IF spread /\ Len(args0) = 0 THEN <<"u">>
  ELSE IF spread /\ Len(args0) # np THEN <<"notcalled">>
  ELSE IF spread /\ args0[Len(args0)][1] # "arr" THEN <<"notcalled">>
  ELSE LET args == IF spread THEN SubSeq(args0, 1, Len(args0) - 1) \o args0[Len(args0)][2] ELSE args0
           na == Len(args)
       IN IF (~sig[3] /\ na # np) \/ (sig[3] /\ na < np - 1) THEN <<"notcalled">>
          ELSE LET cs == [i \in 1..na |-> Conv1(KindAt(sig, i), args[i])] IN
               IF \E i \in 1..na : cs[i][1] = "err" /\ \A j \in 1..(i - 1) : cs[j][1] = "ok" THEN <<"notcalled">>
               ELSE IF \E i \in 1..na : cs[i][1] # "ok" THEN <<"u">>
               ELSE <<"called", [i \in 1..na |-> cs[i][2]]>>
=============================================================================
