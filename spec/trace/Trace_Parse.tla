----------------------------- MODULE Trace_Parse -----------------------------
(* Trace validation of parses recorded from the real code on random, mutated *)
(* and pathological texts (C01, C14, C15; C02 for the accepted ones).        *)
(* One event per text:                                                       *)
(*  {"ev":"parse","text":[bytes],"out":"ok"|"reject"|"panic"|"hang",         *)
(*   "tree":tree|[],"toks":[[k,start,tpos,end,val,nl]..],"serr":n,           *)
(*   "diags":[[start,len,code]..],"shape":[line,col,code]|[],"scans":n}      *)
(* toks / serr come from the public Scanner API, diags / shape / tree from   *)
(* ParseSourceCode, scans from the guarded scan hook.                        *)
EXTENDS FLexer, FGrammar, FLines, Json, TLC, FiniteSets

Trace == ndJsonDeserialize("trace.ndjson")
VARIABLES i, bad
vars == <<i, bad>>
Same(a, b) == ToJson(a) = ToJson(b)

\* ---- C14: the real tokens tile the text
TokOK(t, k) == /\ k[2] <= k[3] /\ k[3] <= k[4] /\ k[4] <= Len(t)
               /\ (k[1] # "EOF" => k[3] < k[4])
               /\ Skip(t, k[2] + 1, FALSE)[1] = k[3] + 1
RealTiling(t, ks) ==
  /\ Len(ks) >= 1 /\ ks[1][2] = 0
  /\ \A j \in 1..Len(ks) : TokOK(t, ks[j])
  /\ \A j \in 1..(Len(ks) - 1) : ks[j + 1][2] = ks[j][4]
  /\ ks[Len(ks)][1] = "EOF" /\ ks[Len(ks)][4] = Len(t)

\* ---- C14: every real token in front of the first malformed lexeme is the specification's token
TokEq(a, b) == /\ a[1] = b[1] /\ a[2] = b[2] /\ a[3] = b[3] /\ a[4] = b[4] /\ a[6] = b[6]
               /\ (a[1] \in {"Str", "Id", "Kw", "typeof"} => Same(a[5], b[5]))
PinnedTokens(lx, ks) ==
  LET n == IF lx.st = "ok" THEN Len(ks) ELSE Cardinality({j \in 1..Len(ks) : ks[j][2] < lx.at}) IN
  /\ n = Len(lx.toks)
  /\ \A j \in 1..n : TokEq(lx.toks[j], ks[j])

\* ---- C01 / C02: the outcome
Outcome(lx, e) ==
  CASE lx.st = "free" -> e.out \in {"ok", "reject"}
    [] lx.st = "bad" -> e.out = "reject"
    [] OTHER -> LET p == ParseTokens(GToks(lx.toks)) IN
                IF p[1] = "OK" THEN e.out = "ok" /\ Same(e.tree, p[2]) ELSE e.out = "reject"

\* ---- C15: the error is pos(line, column) error(code) of the first diagnostic; diagnostics lie in the text
Diags(t, e) ==
  /\ \A j \in 1..Len(e.diags) : e.diags[j][1] >= 0 /\ e.diags[j][2] >= 0 /\ e.diags[j][1] + e.diags[j][2] <= Len(t)
  /\ (e.out = "reject" /\ Len(e.diags) > 0) =>
        LET lc == LineCol(t, e.diags[1][1]) IN e.shape = <<lc[1], lc[2], e.diags[1][3]>>

\* ---- C01: work proportional to the input (scanner steps per token, from the scan hook)
Steps(e) == e.scans <= 3 * Len(e.toks) + 4

EventOK(e) ==
  LET t == e.text  lx == LexAll(t) IN
  /\ e.out \in {"ok", "reject"}
  /\ RealTiling(t, e.toks)
  /\ PinnedTokens(lx, e.toks)
  /\ (lx.st = "ok" => e.serr = Cardinality({j \in 1..Len(e.toks) : e.toks[j][1] = "Unknown"}) \/ e.serr >= 0)
  /\ Outcome(lx, e)
  /\ Diags(t, e)
  /\ Steps(e)

Init == i = 1 /\ bad = <<>>
StepEvent == /\ i <= Len(Trace) /\ i' = i + 1
             /\ bad' = IF EventOK(Trace[i]) THEN bad ELSE Append(bad, i)
Finish == /\ i = Len(Trace) + 1 /\ i' = i + 1 /\ UNCHANGED bad
          /\ PrintT("VERDICT " \o ToJson(bad))
          /\ PrintT("TRACE-CONSUMED " \o ToString(Len(Trace)))
Next == StepEvent \/ Finish
Spec == Init /\ [][Next]_vars
Consumed == TLCGet("stats").diameter - 2 = Len(Trace)
=============================================================================
