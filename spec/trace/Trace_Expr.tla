------------------------------ MODULE Trace_Expr ------------------------------
(* Trace validation of single evaluations recorded from the real code on      *)
(* random programs, operands and data (C04, C03, C05, C06, C18 ...):          *)
(*  {"ev":"expr","tree":tree,"data":{name:desc},"out":["ok",value,log] |      *)
(*   ["err",log], "f64":[neg,[digits of M],E] | []}                            *)
(* tree is the projection of the tree the real parser built; out the exact     *)
(* value of the root node (a number keeps its decimal) or the error; f64 the   *)
(* float64 Resolve handed back, as mantissa and binary exponent.  The event    *)
(* must be explained by FEval on the same tree and data; where FEval leaves    *)
(* the case unpinned only totality is demanded.                               *)
EXTENDS FEval, FData, Json, TLC

Trace == ndJsonDeserialize("trace.ndjson")
VARIABLES i, bad, npin
vars == <<i, bad, npin>>
Same(a, b) == ToJson(a) = ToJson(b)

\* the specification's value may leave a choice ("oneof") at any depth of an array, map or struct
RECURSIVE Match(_, _)
Match(s, o) ==
  IF s[1] = "oneof" THEN \E j \in 2..Len(s) : Match(s[j], o)
  ELSE IF s[1] = "arr" /\ Len(s[2]) > 0 THEN
       /\ o[1] = "arr" /\ Len(o) = Len(s) /\ Len(o[2]) = Len(s[2])
       /\ \A k \in 1..Len(s[2]) : Match(s[2][k], o[2][k])
       /\ (Len(s) = 3 => Same(s[3], o[3]))
  ELSE IF s[1] \in {"map", "struct"} /\ DOMAIN s[2] # {} THEN
       /\ o[1] = s[1] /\ Len(o) = Len(s) /\ DOMAIN o[2] = DOMAIN s[2]
       /\ \A k \in DOMAIN s[2] : Match(s[2][k], o[2][k])
       /\ (Len(s) = 3 => Same(s[3], o[3]))
  ELSE Same(s, o)

\* Long division on 34-digit operands is too slow to compute in bulk in TLC, so a quotient or remainder
\* at the root of the tree is *checked* against its defining (in)equalities by multiplication:
\*   q = a / b  iff  DIsQuo(a, b, q)                     (half-ulp bracket, ties to even)
\*   r = a % b  iff  a = w * b + r, w an integer (witness logged by the driver), |r| < |b|, sign of a
Strip(t) == IF t[1] = "Paren" THEN t[2] ELSE t
RootDiv(e) == LET t == Strip(e.tree) IN t[1] = "Bin" /\ t[2] \in {"/", "pct"}
DivOK(e) ==
  LET t == Strip(e.tree)
      st0 == [this |-> NormMap(e.data), log |-> <<>>]
      a == Eval(t[3], st0)
      b == Eval(t[4], st0)
  IN IF a[1] # "ok" \/ b[1] # "ok" \/ a[2][1] # "num" \/ b[2][1] # "num" \/ DIsZero(DecOf(b[2])) THEN e.out[1] \in {"ok", "err"}
     ELSE /\ e.out[1] = "ok" /\ e.out[2][1] = "num"
          /\ LET x == DecOf(a[2])  y == DecOf(b[2])  r == <<e.out[2][2], e.out[2][3], e.out[2][4]>> IN
             /\ Canon(r[1], r[2], r[3]) = r
             /\ IF t[2] = "/" THEN DIsQuo(x, y, r)
                ELSE LET w == Canon(e.wit[1], e.wit[2], 0) IN
                     /\ DAddExact(DMulExact(w, y), r) = x
                     /\ DCmp(DAbs(r), DAbs(y)) < 0
                     /\ (DIsZero(r) \/ r[1] = x[1])
             /\ (Len(e.f64) = 3 /\ IsFloat64Of(r, e.f64))

EventOK(e) ==
  IF RootDiv(e) THEN DivOK(e) ELSE
  LET o == Outcome(e.tree, [this |-> NormMap(e.data), log |-> <<>>]) IN
  /\ e.out[1] \in {"ok", "err"}
  /\ CASE o[1] = "unspec" -> TRUE
       [] o[1] = "err" -> e.out[1] = "err" /\ Same(o[2].log, e.out[2])
       [] o[1] = "ok" -> /\ e.out[1] = "ok"
                         /\ Match(o[2], e.out[2])
                         /\ Same(o[3].log, e.out[3])
                         \* the float64 handed back to the caller (C04)
                         /\ (o[2][1] = "num" /\ Len(e.f64) = 3) => IsFloat64Of(DecOf(o[2]), e.f64)
                         /\ (o[2][1] = "num" => Len(e.f64) = 3)

\* an event is pinned when the specification determines its outcome (not "unspec")
Pinned(e) == RootDiv(e) \/ Outcome(e.tree, [this |-> NormMap(e.data), log |-> <<>>])[1] # "unspec"
Init == i = 1 /\ bad = <<>> /\ npin = 0
StepEvent == /\ i <= Len(Trace) /\ i' = i + 1
             /\ bad' = IF EventOK(Trace[i]) THEN bad ELSE Append(bad, i)
             /\ npin' = IF Pinned(Trace[i]) THEN npin + 1 ELSE npin
Finish == /\ i = Len(Trace) + 1 /\ i' = i + 1 /\ UNCHANGED <<bad, npin>>
          /\ PrintT("TRACE-PINNED " \o ToString(npin))
          /\ PrintT("VERDICT " \o ToJson(bad))
          /\ PrintT("TRACE-CONSUMED " \o ToString(Len(Trace)))
Next == StepEvent \/ Finish
Spec == Init /\ [][Next]_vars
Consumed == TLCGet("stats").diameter - 2 = Len(Trace)
=============================================================================
