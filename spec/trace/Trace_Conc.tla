----------------------------- MODULE Trace_Conc -----------------------------
(* Free-running goroutines (C09): one event per distinct (workload, outcome) *)
(* observed while G goroutines evaluated, analysed and parsed concurrently   *)
(* under the race detector.  Each outcome must be the sequential one.        *)
EXTENDS FConc, Json

Trace == ndJsonDeserialize("trace.ndjson")
VARIABLES i, bad
vars == <<i, bad>>
Same(a, b) == ToJson(a) = ToJson(b)

RECURSIVE DotName(_, _)
DotName(p, n) == IF n = Len(p) THEN p[n] ELSE p[n] \o "." \o DotName(p, n + 1)
FieldsSame(exp, obs) ==      \* exp = <<Fields, FieldsNotLocal>> with lower/upper sets; obs = <<<<"ok", names>>, ...>>
  \A k \in 1..2 :
     IF exp[k][1] = "refuse" THEN obs[k][1] = "refuse"
     ELSE /\ obs[k][1] = "ok"
          /\ LET got == { obs[k][2][j] : j \in 1..Len(obs[k][2]) }
                 Name(p) == DotName(p, 1)
             IN /\ { Name(p) : p \in exp[k][2] } \subseteq got
                /\ got \subseteq { Name(p) : p \in exp[k][3] }
EventOK(e) ==
  IF e.w[1] \in {"eval", "evaldeep", "parse"} THEN (IF Expected(e.w)[1] = "unspec" THEN e.out[1] \in {"ok", "err"} ELSE Same(Expected(e.w), e.out)) ELSE FieldsSame(Expected(e.w), e.out)

Init == i = 1 /\ bad = <<>>
StepEvent == /\ i <= Len(Trace) /\ i' = i + 1
             /\ bad' = IF EventOK(Trace[i]) THEN bad ELSE Append(bad, i)
Finish == /\ i = Len(Trace) + 1 /\ i' = i + 1 /\ UNCHANGED bad
          /\ PrintT("VERDICT " \o ToJson(bad))
          /\ PrintT("TRACE-CONSUMED " \o ToString(Len(Trace)))
Next == StepEvent \/ Finish
Spec == Init /\ [][Next]_vars
Consumed == TLCGet("stats").diameter - 2 = Len(Trace)
=============================================================================
