----------------------------- MODULE Trace_Nodes -----------------------------
(* Per-node trace validation (C03, C05, C06, C07, C16, C17, C18 on random     *)
(* programs).  The guarded resolve hook reports every evaluated node at exit  *)
(* with the observed results of the children that were evaluated, in          *)
(* evaluation order:                                                          *)
(*  {"ev":"start","data":{name:desc}}                      a new evaluation   *)
(*  {"ev":"node","kind":..,"op":..,"name":..,"lit":..,"n":children,           *)
(*   "spread":bool,"assert":bool,"kids":[[role,res]..],"res":res}             *)
(* res = ["ok", value] | ["err"].  Each node is judged locally by the one-    *)
(* step semantics of FEval given its children's *observed* results, so an     *)
(* unpinned cell deep inside a program does not blind the check of the nodes  *)
(* around it.  The store (data map incl. "$" locals) is tracked through the   *)
(* events: a valid assignment binds at its exit.                              *)
EXTENDS FEval, FData, Json, TLC

Trace == ndJsonDeserialize("trace.ndjson")
VARIABLES i, store, bad, npin
vars == <<i, store, bad, npin>>
Same(a, b) == ToJson(a) = ToJson(b)

IsOk(r) == r[1] = "ok"
KidRes(e, k) == e.kids[k][2]
KidRole(e, k) == e.kids[k][1]
NK(e) == Len(e.kids)
\* roles are evaluated in increasing order, each at most once
Ordered(e) == \A k \in 1..(NK(e) - 1) : KidRole(e, k) < KidRole(e, k + 1)
\* an erroneous child is the last one evaluated and makes the node fail
ErrProp(e) == \A k \in 1..NK(e) : ~IsOk(KidRes(e, k)) => (k = NK(e) /\ ~IsOk(e.res))
AllOk(e) == \A k \in 1..NK(e) : IsOk(KidRes(e, k))
Roles(e) == { KidRole(e, k) : k \in 1..NK(e) }
Val(e, role) == LET k == CHOOSE k \in 1..NK(e) : KidRole(e, k) = role IN KidRes(e, k)[2]

ScalarKinds == {"num", "str", "bool", "nan", "inf"}          \* (a time is a Go struct: a missing field is an error)
\* expected result of a node whose evaluated children all succeeded: <<"v", value>> | <<"e">> | <<"u">>
Step(e, st) ==
  CASE e.kind = "Lit" -> IF e.lit[1] = "Kw" /\ e.lit[2] \in {"this", "ctx"} THEN <<"u">> ELSE <<"v", LitValue(e.lit[1], e.lit[2])>>
    [] e.kind = "Id" -> IF e.name \in BuiltinNames THEN <<"v", <<"func", e.name>>>>
                        ELSE IF e.name \in DOMAIN st THEN <<"v", st[e.name]>> ELSE <<"v", Null>>
    [] e.kind = "Paren" -> IF Roles(e) = {1} THEN <<"v", Val(e, 1)>> ELSE <<"bad">>
    [] e.kind = "Arr" -> IF Roles(e) = 1..e.n THEN <<"v", Arr([k \in 1..e.n |-> Val(e, k)])>> ELSE <<"bad">>
    [] e.kind = "Pre" -> IF Roles(e) = {1} THEN PrefixOp(e.op, Val(e, 1)) ELSE <<"bad">>
    [] e.kind = "Typeof" -> <<"u">>
    \* "x!.k is an error exactly when x is null": on any other receiver whose member is not pinned the result is still no error
    [] e.kind = "Sel" -> IF Roles(e) # {0} THEN <<"bad">>
                         ELSE LET mm == Member(Val(e, 0), e.name, e.assert) IN
                              IF mm[1] = "u" /\ e.assert /\ Val(e, 0)[1] \in ScalarKinds THEN <<"noerr">> ELSE mm
    [] e.kind = "Cond" ->
         IF 1 \notin Roles(e) THEN <<"bad">>
         ELSE IF IsOneOf(Val(e, 1)) THEN <<"u">>
         ELSE LET sel == IF Truthy(Val(e, 1)) THEN 2 ELSE 3 IN
              IF Roles(e) = {1, sel} THEN <<"v", Val(e, sel)>> ELSE <<"bad">>           \* exactly the selected branch
    [] e.kind = "Bin" /\ e.op = "=" ->
         IF e.target = "" THEN (IF NK(e) = 0 THEN <<"e">> ELSE <<"u">>)                  \* invalid target: an error
         ELSE IF Roles(e) = {2} THEN <<"v", Val(e, 2)>> ELSE <<"bad">>
    [] e.kind = "Bin" /\ e.op = "," -> IF Roles(e) = {1, 2} THEN <<"v", Val(e, 2)>> ELSE <<"bad">>
    [] e.kind = "Bin" /\ e.op \in {"&&", "||", "??"} ->
         IF 1 \notin Roles(e) THEN <<"bad">>
         ELSE IF IsOneOf(Val(e, 1)) THEN <<"u">>
         ELSE LET takeLeft == CASE e.op = "&&" -> ~Truthy(Val(e, 1)) [] e.op = "||" -> Truthy(Val(e, 1)) [] e.op = "??" -> ~IsNullV(Val(e, 1)) IN
              IF takeLeft THEN <<"v", Val(e, 1)>>                                       \* the right operand may or may not have run
              ELSE IF 2 \in Roles(e) THEN <<"v", Val(e, 2)>> ELSE <<"bad">>
    [] e.kind = "Bin" -> IF Roles(e) = {1, 2} THEN BinaryOp(IF e.op = "pct" THEN "%" ELSE e.op, Val(e, 1), Val(e, 2)) ELSE <<"bad">>
    [] e.kind = "Call" ->
         IF 0 \notin Roles(e) THEN <<"bad">>
         ELSE IF ~e.path THEN <<"u">>
         ELSE IF Roles(e) # 0..e.n THEN <<"bad">>                                        \* callee, then every argument, left to right
         ELSE IF Val(e, 0)[1] # "func" THEN <<"e">>
         ELSE IF Val(e, 0)[2] \notin BuiltinNames \cup {"rec", "fail", "failv", "id", "recs", "add2", "cat"} THEN <<"u">>
         ELSE LET args == [k \in 1..e.n |-> Val(e, k)] IN
              IF \E k \in 1..e.n : IsOneOf(args[k]) \/ (args[k][1] = "strnum" /\ Val(e, 0)[2] # "toFloat") THEN <<"u">>
              ELSE LET r == ApplyFunc(Val(e, 0)[2], args, e.spread, <<>>) IN
                   IF r[1] = "v" THEN <<"v", r[2]>> ELSE IF r[1] = "e" THEN <<"e">> ELSE <<"u">>

\* "/" and "%" are judged by multiplication when both operands are numbers (see Trace_Expr)
DivNode(e) == e.kind = "Bin" /\ e.op \in {"/", "pct"} /\ Roles(e) = {1, 2} /\ AllOk(e)
              /\ Val(e, 1)[1] = "num" /\ Val(e, 2)[1] = "num" /\ ~DIsZero(DecOf(Val(e, 2)))
DivNodeOK(e) ==
  /\ IsOk(e.res) /\ e.res[2][1] = "num"
  /\ LET x == DecOf(Val(e, 1))  y == DecOf(Val(e, 2))  r == DecOf(e.res[2]) IN
     IF e.op = "/" THEN DIsQuo(x, y, r)
     ELSE /\ DCmp(DAbs(r), DAbs(y)) < 0 /\ (DIsZero(r) \/ r[1] = x[1])
          /\ LET w == Canon(e.wit[1], e.wit[2], 0) IN DAddExact(DMulExact(w, y), r) = x

NodeOK(e, st) ==
  /\ Ordered(e) /\ ErrProp(e)
  /\ IF ~AllOk(e) THEN TRUE
     ELSE IF DivNode(e) THEN DivNodeOK(e)
     ELSE LET s == Step(e, st) IN
          CASE s[1] = "bad" -> FALSE
            [] s[1] = "u" -> TRUE
            [] s[1] = "e" -> ~IsOk(e.res)
            [] s[1] = "noerr" -> IsOk(e.res)
            [] s[1] = "v" -> IsOk(e.res) /\ (IF s[2][1] = "oneof" THEN \E j \in 2..Len(s[2]) : Same(s[2][j], e.res[2])
                                             ELSE IF s[2][1] = "strnum" THEN e.res[2][1] = "str" ELSE Same(s[2], e.res[2]))
Pinned(e, st) == AllOk(e) /\ (DivNode(e) \/ Step(e, st)[1] \in {"v", "e", "noerr"})

Init == i = 1 /\ store = <<>> /\ bad = <<>> /\ npin = 0
StepEvent ==
  /\ i <= Len(Trace) /\ i' = i + 1
  /\ LET e == Trace[i] IN
     IF e.ev = "start" THEN store' = NormMap(e.data) /\ UNCHANGED <<bad, npin>>
     ELSE /\ bad' = IF NodeOK(e, store) THEN bad ELSE Append(bad, i)
          /\ npin' = IF Pinned(e, store) THEN npin + 1 ELSE npin
          \* a valid assignment binds its value when it completes
          /\ store' = IF e.kind = "Bin" /\ e.op = "=" /\ e.target # "" /\ IsOk(e.res) THEN Bind(store, e.target, e.res[2]) ELSE store
Finish == /\ i = Len(Trace) + 1 /\ i' = i + 1 /\ UNCHANGED <<store, bad, npin>>
          /\ PrintT("TRACE-PINNED " \o ToString(npin))
          /\ PrintT("VERDICT " \o ToJson(bad))
          /\ PrintT("TRACE-CONSUMED " \o ToString(Len(Trace)))
Next == StepEvent \/ Finish
Spec == Init /\ [][Next]_vars
Consumed == TLCGet("stats").diameter - 2 = Len(Trace)
=============================================================================
