------------------------------ MODULE Trace_Math ------------------------------
(* sqrt, exp, ln, log agree with the real functions to 15 significant digits   *)
(* (C18).  Events recorded from the real builtins:                             *)
(*   {"ev":"math","fn":"sqrt"|"exp"|"ln"|"log","x":[neg,digits,exp],"r":[..]}  *)
(* Each is judged by FTranscend: sqrt by squaring, exp against a 28-digit       *)
(* fixed-point Taylor evaluation, ln and log through exp.                      *)
EXTENDS FTranscend, Json, TLC

Trace == ndJsonDeserialize("trace.ndjson")
VARIABLES i, bad
vars == <<i, bad>>
D(v) == Canon(v[1], v[2], v[3])

\* "inverse to squaring ... and powers of ten": on the square of a number of at most 15 digits sqrt returns that
\* number, and log of a power of ten is its exponent - exactly, not merely to 15 digits
EventOK(e) ==
  LET x == D(e.x)  r == D(e.r) IN
  CASE e.fn = "sqrt" -> /\ IsSqrt(x, r)
                        /\ LET c == RoundP(r[1], r[2], r[3], 15, FALSE) IN DMulExact(c, c) = x => r = c
    [] e.fn = "exp" -> IsExp(x, r)
    [] e.fn = "ln" -> IsLn(x, r)
    [] e.fn = "log" -> IF x[2] = <<1>> /\ ~x[1] THEN r = DInt(x[3]) ELSE IsLog10(x, r)

\* the oracle checks itself on known values before it judges (30 decimals of e^2, sqrt(e), e^-1 * e)
SelfCheck ==
  /\ RelClose(ExpApprox(<<FALSE, <<2>>, 0>>), <<FALSE, <<7,3,8,9,0,5,6,0,9,8,9,3,0,6,5,0,2,2,7,2,3,0,4,2,7,4,6,0,5,7,5>>, -30>>, <<FALSE, <<1>>, -27>>)
  /\ RelClose(ExpApprox(<<FALSE, <<5>>, -1>>), <<FALSE, <<1,6,4,8,7,2,1,2,7,0,7,0,0,1,2,8,1,4,6,8,4,8,6,5,0,7,8,7,8,1,4>>, -30>>, <<FALSE, <<1>>, -27>>)
  /\ ExpApprox(DZero) = DOne
  /\ IsLog10(<<FALSE, <<1>>, 7>>, <<FALSE, <<7>>, 0>>) /\ IsLn(DOne, DZero) /\ IsSqrt(<<FALSE, <<2,5>>, -2>>, <<FALSE, <<5>>, -1>>)
  /\ ~IsLog10(<<FALSE, <<1>>, 7>>, <<FALSE, <<7,0,0,0,0,0,0,0,0,0,0,0,0,1>>, -13>>)       \* off by one unit of the 14th digit: rejected
  /\ ~IsSqrt(<<FALSE, <<2>>, 0>>, <<FALSE, <<1,4,1,4,2,1,3,5,6,2,3,7,4>>, -12>>)             \* sqrt 2 cut to 13 digits: rejected
  /\ ~IsExp(DOne, <<FALSE, <<2,7,1,8,2,8,1,8,2,8,4,5,9>>, -12>>)                            \* e cut to 13 digits: rejected
ASSUME SelfCheck

Init == i = 1 /\ bad = <<>>
StepEvent == /\ i <= Len(Trace) /\ i' = i + 1
             /\ bad' = IF EventOK(Trace[i]) THEN bad ELSE Append(bad, i)
Finish == /\ i = Len(Trace) + 1 /\ i' = i + 1 /\ UNCHANGED bad
          /\ PrintT("VERDICT " \o ToJson(bad))
          /\ PrintT("TRACE-CONSUMED " \o ToString(Len(Trace)))
Next == StepEvent \/ Finish
Spec == Init /\ [][Next]_vars
Consumed == TLCGet("stats").diameter - 2 = Len(Trace)
=============================================================================
