------------------------------ MODULE Trace_Time ------------------------------
(* Trace validation of the date builtins under process-local zones with and   *)
(* without daylight saving (C19).  Zone rules are not specified: every time    *)
(* value carries the offset Go's zone database reports for that instant, and  *)
(* the specification checks the civil arithmetic given the offset.            *)
(*  {"ev":"date","y":..,"m":..,"d":..,"res":time}                             *)
(*  {"ev":"fields","t":time,"fields":[y,m,d,h,mi,s,wd],"ms":[neg,digits]}    *)
(*  ("date" events whose result is not that midnight carry "gap": [p, p + 1 ms]) *)
(*  {"ev":"usetz","t":time,"res":time}   {"ev":"badtz","err":bool}            *)
(*  {"ev":"adddate","t":time,"dy":..,"dm":..,"dd":..,"res":time}              *)
(*  {"ev":"now","t0":time,"res":time,"t1":time}  {"ev":"today", same}         *)
(*  {"ev":"format","t":time,"layout":bytes,"res":bytes}                       *)
EXTENDS FBuiltins, Json

Trace == ndJsonDeserialize("trace.ndjson")
VARIABLES i, bad
vars == <<i, bad>>

Inst(t) == <<t[2], t[3]>>
InstLE(a, b) == a[1] < b[1] \/ (a[1] = b[1] /\ a[2] <= b[2])
OneMsBefore(a, b) == IF b[2] = 0 THEN a[1] = b[1] - 1 /\ a[2] = MsPerDay - 1 ELSE a[1] = b[1] /\ a[2] = b[2] - 1
IsTime(t) == t[1] = "time" /\ t[3] >= 0 /\ t[3] < MsPerDay
DatePart(f) == <<f[1], f[2], f[3]>>

EventOK(e) ==
  CASE e.ev = "date" ->
         /\ IsTime(e.res)
         \* local midnight of the normalised civil date; where the local clock jumps over that midnight (America/Sao_Paulo
         \* 2018-11-04 00:00 -> 01:00, Australia/Lord_Howe 1981-03-01 00:00 -> 00:30) there is no such instant and nothing
         \* is demanded.  The jump is witnessed by two instants one millisecond apart, logged with their own offsets.
         /\ LET f == LocalFields(e.res)  target == NormDays(e.y, e.m, e.d) IN
            \/ /\ DatePart(f) = CivilFromDays(target)
               /\ f[4] = 0 /\ f[5] = 0 /\ f[6] = 0 /\ e.res[3] % 1000 = 0
               /\ e.res[4] = e.loff          \* midnight of the zone the process has now (time.Local as the host set it)
            \/ /\ Len(e.gap) = 2 /\ IsTime(e.gap[1]) /\ IsTime(e.gap[2]) /\ OneMsBefore(Inst(e.gap[1]), Inst(e.gap[2]))
               /\ LET p == LocalFields(e.gap[1])  q == LocalFields(e.gap[2])
                      dq == DaysFromCivil(q[1], q[2], q[3]) IN
                  /\ DaysFromCivil(p[1], p[2], p[3]) < target
                  /\ dq > target \/ (dq = target /\ (q[4] # 0 \/ q[5] # 0 \/ q[6] # 0))
    [] e.ev = "fields" ->
         /\ IsTime(e.t)
         /\ e.fields = LocalFields(e.t)
         /\ Canon(e.ms[1], e.ms[2], 0) = DAddExact(DMulExact(DInt(e.t[2]), DInt(MsPerDay)), DInt(e.t[3]))
    \* the instant is kept and the result is in the zone asked for (its offset at that instant comes from the zone database)
    [] e.ev = "usetz" -> IsTime(e.res) /\ Inst(e.res) = Inst(e.t) /\ e.res[4] = e.zoff
    [] e.ev = "badtz" -> e.err
    [] e.ev = "adddate" ->
         /\ IsTime(e.res)
         /\ LET f == LocalFields(e.t)  g == LocalFields(e.res) IN
            /\ DatePart(g) = CivilFromDays(NormDays(f[1] + e.dy, f[2] + e.dm, f[3] + e.dd))
            /\ g[4] = f[4] /\ g[5] = f[5] /\ g[6] = f[6]
            /\ e.res[3] % 1000 = e.t[3] % 1000          \* the part below the second travels with the time of day (zone offsets are whole seconds)
    [] e.ev = "now" -> IsTime(e.res) /\ InstLE(Inst(e.t0), Inst(e.res)) /\ InstLE(Inst(e.res), Inst(e.t1))
    [] e.ev = "today" ->
         /\ IsTime(e.res)
         /\ LET g == LocalFields(e.res) IN
            /\ g[4] = 0 /\ g[5] = 0 /\ g[6] = 0 /\ e.res[3] % 1000 = 0 /\ e.res[4] = e.loff
            /\ DatePart(g) \in {DatePart(LocalFields(e.t0)), DatePart(LocalFields(e.t1))}
    [] e.ev = "format" ->
         LET r == FormatLayout(e.layout, LocalFields(e.t)) IN r[1] => r[2] = e.res

Init == i = 1 /\ bad = <<>>
StepEvent == /\ i <= Len(Trace) /\ i' = i + 1
             /\ bad' = IF EventOK(Trace[i]) THEN bad ELSE Append(bad, i)
Finish == /\ i = Len(Trace) + 1 /\ i' = i + 1 /\ UNCHANGED bad
          /\ PrintT("VERDICT " \o ToJson(bad))
          /\ PrintT("TRACE-CONSUMED " \o ToString(Len(Trace)))
Next == StepEvent \/ Finish
Spec == Init /\ [][Next]_vars
Consumed == TLCGet("stats").diameter - 2 = Len(Trace)
=============================================================================
