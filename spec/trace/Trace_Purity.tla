---------------------------- MODULE Trace_Purity ----------------------------
(* Trace validation for C08 on long random histories recorded from one       *)
(* process: target formulas are parsed, analysed and evaluated (fresh        *)
(* runners, equal data) interleaved with unrelated random formulas.          *)
(*  {"ev":"op","key":"eval|t3|d1","res":..,"tree_same":bool}                 *)
(* The history variable `seen` maps every key to the result observed first;  *)
(* purity = every later observation of the key equals it, and no operation   *)
(* changed the tree it worked on (tree dumped before and after).             *)
EXTENDS Sequences, Integers, FiniteSets, Json, TLC

Trace == ndJsonDeserialize("trace.ndjson")
VARIABLES i, seen, bad
vars == <<i, seen, bad>>

Init == i = 1 /\ seen = <<>> /\ bad = <<>>
StepEvent ==
  /\ i <= Len(Trace) /\ i' = i + 1
  /\ LET e == Trace[i]  r == ToJson(e.res) IN
     IF e.key \in DOMAIN seen
     THEN /\ seen' = seen
          /\ bad' = IF seen[e.key] = r /\ e.tree_same THEN bad ELSE Append(bad, i)
     ELSE /\ seen' = [k \in (DOMAIN seen) \cup {e.key} |-> IF k = e.key THEN r ELSE seen[k]]
          /\ bad' = IF e.tree_same THEN bad ELSE Append(bad, i)
Finish == /\ i = Len(Trace) + 1 /\ i' = i + 1 /\ UNCHANGED <<seen, bad>>
          /\ PrintT("VERDICT " \o ToJson(bad))
          /\ PrintT("TRACE-CONSUMED " \o ToString(Len(Trace)))
Next == StepEvent \/ Finish
Spec == Init /\ [][Next]_vars
Consumed == TLCGet("stats").diameter - 2 = Len(Trace)
\* every repeated key was really compared: the trace contains repetitions
Repeats == (i = Len(Trace) + 2) => Cardinality(DOMAIN seen) < Len(Trace)
=============================================================================
