SPECIFICATION Spec
POSTCONDITION Consumed
INVARIANT Repeats
CHECK_DEADLOCK FALSE
