------------------------------ MODULE Trace_Big ------------------------------
(* Large and pathological inputs (C01): up to 64 KiB of deep nesting, long    *)
(* operator chains, unterminated literals, stray bytes, random soups.  TLC    *)
(* cannot lex 64 KiB texts token by token in bulk, so each event carries the  *)
(* observed counts and the specification contributes the bounds:              *)
(*  {"ev":"big","shape":..,"len":n,"out":..,"ntoks":n,"scans":n,"tiling":"", *)
(*   "complete":bool,"us4k":t,"us64k":t}  (microseconds; TLC integers: 32 bit) *)
(* - exactly one of error / tree (out), never a panic or hang;                *)
(* - the scanner's tokens tile the text (arithmetic part, computed by the     *)
(*   driver over the public Scanner API);                                     *)
(* - progress: scanner steps are linear in the number of tokens (FLexer: every*)
(*   token consumes at least one byte; FGrammar: one token of look-ahead);    *)
(* - the wall-clock net: 64 KiB in at most 2 s, and not 128 times slower than *)
(*   4 KiB of the same shape unless below 50 ms.                              *)
EXTENDS Integers, Sequences, Json, TLC

Trace == ndJsonDeserialize("trace.ndjson")
VARIABLES i, bad
vars == <<i, bad>>

EventOK(e) ==
  /\ e.out \in {"ok", "reject"}
  /\ e.tiling = ""
  /\ (e.out = "ok" => e.complete)
  /\ e.ntoks <= e.len + 1                      \* every token but EOF consumes a byte
  /\ e.scans <= 3 * e.ntoks + 4
  /\ e.us64k >= 0 /\ e.us4k >= 0
  /\ ~(e.us64k > 2000000)
  /\ ~(e.us64k > 50000 /\ e.us64k > 128 * e.us4k)

Init == i = 1 /\ bad = <<>>
StepEvent == /\ i <= Len(Trace) /\ i' = i + 1
             /\ bad' = IF EventOK(Trace[i]) THEN bad ELSE Append(bad, i)
Finish == /\ i = Len(Trace) + 1 /\ i' = i + 1 /\ UNCHANGED bad
          /\ PrintT("VERDICT " \o ToJson(bad))
          /\ PrintT("TRACE-CONSUMED " \o ToString(Len(Trace)))
Next == StepEvent \/ Finish
Spec == Init /\ [][Next]_vars
Consumed == TLCGet("stats").diameter - 2 = Len(Trace)
=============================================================================
