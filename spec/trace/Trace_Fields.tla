---------------------------- MODULE Trace_Fields ----------------------------
(* Referenced-field analysis on random programs (C10):                      *)
(*  {"ev":"fields","tree":tree,"all":[names]|"refuse","nonlocal":..,        *)
(*   "full":outcome,"restricted":outcome,"usesdata":{..}}                   *)
(* tree comes from the real parser; all / nonlocal from the two analysis    *)
(* functions (dotted names); full / restricted are the real evaluation      *)
(* results against the full data map and against the map restricted to the  *)
(* reported top-level names and called names.                               *)
EXTENDS FEval, FData, FFields, Json, TLC

Trace == ndJsonDeserialize("trace.ndjson")
VARIABLES i, bad
vars == <<i, bad>>
Same(a, b) == ToJson(a) = ToJson(b)

RECURSIVE JoinDots(_, _)
JoinDots(p, k) == IF k = Len(p) THEN p[k] ELSE p[k] \o "." \o JoinDots(p, k + 1)
Names(ps) == { JoinDots(p, 1) : p \in ps }
SetOK(spec, got) ==      \* spec = <<"ok", lower, upper>> | <<"refuse">> ; got = <<"ok", names>> | <<"refuse">>
  IF spec[1] = "refuse" THEN got[1] = "refuse"
  ELSE /\ got[1] = "ok"
       /\ LET g == { got[2][j] : j \in 1..Len(got[2]) } IN
          /\ Cardinality(g) = Len(got[2])                         \* no duplicates
          /\ Names(spec[2]) \subseteq g /\ g \subseteq Names(spec[3])

EventOK(e) ==
  /\ SetOK(Fields(e.tree), e.all)
  /\ SetOK(FieldsNotLocal(e.tree), e.nonlocal)
  \* sufficiency: same value / error against the restricted map (formulas not using `this`)
  /\ (Fields(e.tree)[1] = "ok" /\ ~UsesThis(e.tree)) => Same(e.full, e.restricted)

Init == i = 1 /\ bad = <<>>
StepEvent == /\ i <= Len(Trace) /\ i' = i + 1
             /\ bad' = IF EventOK(Trace[i]) THEN bad ELSE Append(bad, i)
Finish == /\ i = Len(Trace) + 1 /\ i' = i + 1 /\ UNCHANGED bad
          /\ PrintT("VERDICT " \o ToJson(bad))
          /\ PrintT("TRACE-CONSUMED " \o ToString(Len(Trace)))
Next == StepEvent \/ Finish
Spec == Init /\ [][Next]_vars
Consumed == TLCGet("stats").diameter - 2 = Len(Trace)
=============================================================================
