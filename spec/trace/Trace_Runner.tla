---------------------------- MODULE Trace_Runner ----------------------------
(* Trace validation of runner histories recorded from the real code (C20,   *)
(* C07, C08).  Each line of trace.ndjson is                                 *)
(*   {"ev":"reset"}                       a fresh world                     *)
(*   {"ev":"op","op":[..],"res":..,"st":..}  one public call, its result    *)
(*                                         and the projected state after it *)
(* The trace specification steps through the events; an "op" event must be  *)
(* explained by the FRunner action of that name: same result, same          *)
(* projected state.  After a rejected event the rest of that history is     *)
(* skipped (the model cannot resynchronise on aliasing).                    *)
EXTENDS FRunnerPool, Json, TLC

Trace == ndJsonDeserialize("trace.ndjson")
Rs == {"r1", "r2"}

VARIABLES i, heap, run, live, bad
vars == <<i, heap, run, live, bad>>

\* robust structural equality (never a TLC type error): compare serialisations
Same(a, b) == ToJson(a) = ToJson(b)

Init == i = 1 /\ heap = InitHeap /\ run = InitRun(Rs) /\ live = TRUE /\ bad = <<>>

StepEvent ==
  /\ i <= Len(Trace)
  /\ i' = i + 1
  /\ LET e == Trace[i] IN
     IF e.ev = "reset" THEN
        heap' = InitHeap /\ run' = InitRun(Rs) /\ live' = TRUE /\ bad' = bad
     ELSE IF ~live THEN UNCHANGED <<heap, run, live, bad>>
     ELSE LET x == ApplyOp(heap, run, e.op) IN
          IF x[1][1] = "unspec" THEN                 \* not pinned: stop judging this history
             UNCHANGED <<heap, run, bad>> /\ live' = FALSE
          ELSE IF Same(x[1], e.res) /\ Same(Proj(x[2], x[3], Rs), e.st) THEN
             heap' = x[2] /\ run' = x[3] /\ live' = TRUE /\ bad' = bad
          ELSE UNCHANGED <<heap, run>> /\ live' = FALSE /\ bad' = Append(bad, i)

Finish ==
  /\ i = Len(Trace) + 1
  /\ i' = i + 1
  /\ PrintT("VERDICT " \o ToJson(bad))
  /\ PrintT("TRACE-CONSUMED " \o ToString(Len(Trace)))
  /\ UNCHANGED <<heap, run, live, bad>>

Next == StepEvent \/ Finish
Spec == Init /\ [][Next]_vars
Consumed == TLCGet("stats").diameter - 2 = Len(Trace)
=============================================================================
