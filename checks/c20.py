"""C20 A runner behaves like a plain map of data plus a separate key-value store.
Model: MC_Runner (FRunner actions SetThis / SetThisValue / Resolve / Set / Get on runners that alias caller maps);
action properties Frame, AuxInvisible, ReplaceDiscardsLocals, SetEntryCreatesMap checked on every transition.
Replay: every history up to N is executed step by step on real runners and real caller maps; after every operation the
result and the full projected state (each runner's map read through `this`, its auxiliary store, the caller's maps) must
equal the model's.  Trace validation: long random histories recorded from the real code are validated by Trace_Runner."""
import json

def corrupt(lines):
    # flip the projected state of a mid-trace operation
    for i in range(len(lines) // 2, len(lines)):
        e = json.loads(lines[i])
        if e.get("ev") == "op" and e["op"][0] == "Resolve" and e["res"][0] == "ok":
            e["res"] = ["ok", ["num", False, [4, 2], 0], []]
            return i, json.dumps(e)
    raise RuntimeError("no event to corrupt")

def run(ctx):
    th = ctx.thorough
    r = ctx.tlc("runner-2x", "mc/MC_Runner.tla", "mc/MC_Runner.cfg", {"N": 4 if th else 3}, min_states=30000, timeout=3400, heap="14g")
    ctx.replay("runner-2x-replay", "runner", r["dump"], min_cases=30000)
    r = ctx.tlc("runner-1x", "mc/MC_Runner.tla", "mc/MC_Runner.cfg", {"N": 5 if th else 4, "Runners": '{"r1"}'}, min_states=60000, timeout=3400, heap="14g")
    ctx.replay("runner-1x-replay", "runner", r["dump"], min_cases=60000)
    tr = ctx.record("runner-random", "runner", ["-histories", 400 if th else 60, "-len", 150 if th else 100])
    ctx.validate("runner-random-validate", "trace/Trace_Runner.tla", "trace/Trace_Runner.cfg", tr, "runner", shards=8 if th else 2)
    ctx.selftest_binding("runner-random", "trace/Trace_Runner.tla", "trace/Trace_Runner.cfg", tr, "runner", corrupt)
    return ctx.finish(
        rule="all operation histories up to length N (2 runners N<=%d, 1 runner N<=%d) over {SetThis(m1|m2|nil), SetThisValue, "
             "Resolve(7 formulas), Set, Get} replayed step by step with full state projection; plus seeded random histories "
             "validated by the trace specification; non-trivial = histories of length >= 2" % ((4, 6) if th else (3, 4)),
        assumptions=["the formula pool avoids unpinned operator cells"])
