"""Shared machinery of the /verif checks: scratch handling, building the Go driver
from /repo's working tree, running TLC (model runs and trace validation), replaying
dumped states into the real code, classifying failures against the known findings,
confirming them by isolated re-execution, writing evidence and setting the exit code.

Exit codes: 0 property held on everything explored (KNOWN-FINDING lines allowed),
            1 at least one confirmed violation that is not a listed open finding,
            2 the machinery itself failed (build, TLC crash, timeout, vacuity, ...).
"""
import json, os, re, shutil, subprocess, sys, tempfile, time, hashlib, glob

VERIF = os.path.dirname(os.path.dirname(os.path.abspath(__file__)))
REPO = os.environ.get("VERIF_REPO", "/repo")
SPEC = os.path.join(VERIF, "spec")
JAVA = ["java", "-XX:+UseParallelGC"]
CP = "/opt/veriftools/tla/tla2tools.jar:/opt/veriftools/tla/CommunityModules-deps.jar"
NCPU = os.cpu_count() or 4


class Broken(Exception):
    """The machinery failed; never a verdict about the code."""


class Crashed(Exception):
    """The real code killed a recording process; the failure is already recorded."""


def go_fatal(p):
    """A fatal error of the Go runtime (not a panic a caller could recover) ended the process."""
    if p.returncode in (0, 1):
        return False
    if "fatal error:" in p.stderr or "goroutine stack exceeds" in p.stderr or "VERIF-HANG:" in p.stderr:
        return True
    # a panic on a goroutine the real code started itself (nothing can recover it): the trace names the library
    return "panic: " in p.stderr and "\ngoroutine " in p.stderr and "github.com/aundis/formula." in p.stderr


def fatal_text(p):
    for l in p.stderr.splitlines():
        if "fatal error:" in l or "goroutine stack exceeds" in l or "VERIF-HANG:" in l or l.startswith("panic: "):
            return l.strip()[:300]
    return p.stderr[:300]


def log(*a):
    print("[vcheck]", *a, file=sys.stderr, flush=True)


class Ctx:
    def __init__(self, pid, tier, level="model_checking"):
        self.pid, self.tier, self.level = pid, tier, level
        self.trace_cmd, self.context_cache = {}, {}
        self.seed = int(os.environ.get("VERIF_SEED", "1") or "1") % 1000000007     # TLC integers are 32 bits wide
        self.t0 = time.time()
        base = os.environ.get("VERIF_SCRATCH") or tempfile.gettempdir()
        self.scratch = tempfile.mkdtemp(prefix="vcheck-%s-" % pid, dir=base)
        self.failures = []        # dicts: family, kind, payload, site, input, expected, observed, stage
        self.states = 0
        self.transitions = 0
        self.replayed = 0
        self.validated = 0
        self.nontrivial = 0
        self.samples = []
        self.stages = []
        self.assumptions = []
        self.exhaustive = True
        self.fv = None
        self.fv_race = None
        self.repo_status0 = self._repo_status()
        self.thorough = tier == "thorough"

    # ------------------------------------------------------------------ infrastructure
    def _repo_status(self):
        try:
            return subprocess.run(["git", "-C", REPO, "status", "--porcelain"], capture_output=True, text=True, errors="replace").stdout
        except Exception:
            return ""

    def cleanup(self):
        shutil.rmtree(self.scratch, ignore_errors=True)

    def goenv(self):
        env = dict(os.environ)
        env.update({"GOPROXY": "off", "GOSUMDB": "off", "GOTOOLCHAIN": "local", "GOFLAGS": "-mod=mod"})
        return env

    def build(self, race=False):
        """Build the driver against /repo's current working tree with hooks enabled."""
        attr = "fv_race" if race else "fv"
        if getattr(self, attr):
            return getattr(self, attr)
        out = os.path.join(self.scratch, "fv-race" if race else "fv")
        cmd = ["go", "build", "-tags", "verif"] + (["-race"] if race else [])
        if os.path.realpath(REPO) != "/repo":
            # checks normally bind to /repo; VERIF_REPO points the driver's replace directive at another tree
            mod = open(os.path.join(VERIF, "harness", "go.mod")).read().replace("=> /repo", "=> " + os.path.realpath(REPO))
            modf = os.path.join(self.scratch, "go.alt.mod")
            open(modf, "w").write(mod)
            shutil.copy(os.path.join(VERIF, "harness", "go.sum"), os.path.join(self.scratch, "go.alt.sum"))
            cmd += ["-modfile", modf]
        cmd += ["-o", out, "./cmd/fv"]
        p = subprocess.run(cmd, cwd=os.path.join(VERIF, "harness"), env=self.goenv(), capture_output=True, text=True, errors="replace")
        if p.returncode != 0:
            raise Broken("go build failed:\n" + p.stdout + p.stderr)
        c = subprocess.run([out, "canary"], capture_output=True, text=True, errors="replace")
        if c.returncode != 0:
            raise Broken("hook canary failed: " + c.stdout + c.stderr)
        setattr(self, attr, out)
        return out

    # ------------------------------------------------------------------ TLC
    def _prep(self, name, module_rel, cfg_rel, constants, extra_files=()):
        d = os.path.join(self.scratch, name)
        os.makedirs(d, exist_ok=True)
        for f in glob.glob(os.path.join(SPEC, "*.tla")) + glob.glob(os.path.join(SPEC, os.path.dirname(module_rel), "*.tla")):
            shutil.copy(f, d)
        shutil.copy(os.path.join(SPEC, module_rel), d)
        cfg = open(os.path.join(SPEC, cfg_rel)).read()
        for k, v in (constants or {}).items():
            cfg, n = re.subn(r"(?m)^(\s*(?:CONSTANT\s+)?%s\s*=\s*).*$" % re.escape(k), lambda m: m.group(1) + str(v), cfg)
            if n == 0:
                raise Broken("constant %s not found in %s" % (k, cfg_rel))
        cfgp = os.path.join(d, os.path.basename(cfg_rel))
        open(cfgp, "w").write(cfg)
        for src, dst in extra_files:
            shutil.copy(src, os.path.join(d, dst))
        return d, os.path.basename(module_rel), os.path.basename(cfg_rel)

    def tlc(self, name, module_rel, cfg_rel, constants=None, dump=True, workers=None, timeout=1800,
            heap="10g", min_states=2, simulate=None, extra_files=(), env_extra=None, tlc_seed=None):
        """Run TLC on a model; returns dict(states, distinct, dump, out). A violated invariant of the
        model itself means the specification is wrong: Broken, not a verdict about the code."""
        d, mod, cfg = self._prep(name, module_rel, cfg_rel, constants, extra_files)
        workers = workers or min(NCPU, 16)
        cmd = JAVA + ["-Xmx" + heap, "-Xss512m", "-cp", CP, "tlc2.TLC", "-workers", str(workers),
                      "-metadir", os.path.join(d, "meta"), "-config", cfg]
        dumpf = None
        if dump:
            dumpf = os.path.join(d, "states")
            cmd += ["-dump", dumpf]
            dumpf += ".dump"
        if simulate:
            cmd += ["-simulate", simulate]
        if tlc_seed is not None:
            cmd += ["-seed", str(tlc_seed)]
        cmd.append(mod)
        t = time.time()
        env = dict(os.environ)
        env.update(env_extra or {})
        try:
            p = subprocess.run(cmd, cwd=d, capture_output=True, text=True, errors="replace", timeout=timeout, env=env)
        except subprocess.TimeoutExpired:
            raise Broken("TLC timeout on %s after %ds" % (name, timeout))
        out = p.stdout + p.stderr
        open(os.path.join(d, "tlc.out"), "w").write(out)
        m = re.search(r"(\d+) states generated, (\d+) distinct states found", out)
        if p.returncode != 0:
            what = "specification-level property violated (the model disagrees with itself)" if "violated" in out else "TLC failed"
            raise Broken("%s on %s (exit %d):\n%s" % (what, name, p.returncode, out[-3000:]))
        if not m:
            raise Broken("TLC output of %s has no state count:\n%s" % (name, out[-2000:]))
        gen, dist = int(m.group(1)), int(m.group(2))
        if dist < min_states:
            raise Broken("vacuous model run %s: %d distinct states < %d" % (name, dist, min_states))
        self.states += dist
        self.transitions += gen
        st = {"stage": name, "kind": "tlc-model", "module": mod, "cfg": cfg, "constants": constants or {},
              "states_generated": gen, "distinct_states": dist, "wall_s": round(time.time() - t, 1)}
        self.stages.append(st)
        log("%s: TLC %d distinct states in %.1fs" % (name, dist, time.time() - t))
        return {"states": gen, "distinct": dist, "dump": dumpf, "out": out, "dir": d}

    # ------------------------------------------------------------------ replay (spec -> code)
    def replay(self, name, family, dumpf, workers=None, race=False, min_cases=1, timeout=3600):
        fv = self.build(race)
        t = time.time()
        cmd = [fv, "replay", family, dumpf] + (["-workers", str(workers)] if workers else [])
        try:
            p = subprocess.run(cmd, capture_output=True, text=True, errors="replace", timeout=timeout)
        except subprocess.TimeoutExpired:
            raise Broken("replay timeout %s" % name)
        self._race_report(name, family, cmd, p, race)
        if go_fatal(p):
            # the real code killed the process (stack overflow, concurrent map access, deadlock ...): find the case
            mark = os.path.join(self.scratch, name + ".mark")
            env = dict(os.environ, VERIF_MARK=mark)
            try:
                p2 = subprocess.run(cmd, capture_output=True, text=True, errors="replace", timeout=timeout, env=env)
            except subprocess.TimeoutExpired:
                raise Broken("replay timeout (looking for the crashing case) %s" % name)
            if not go_fatal(p2) and p2.returncode in (0, 1, 3):
                # the death needed the driver's parallel workers (e.g. "concurrent map writes" on state the library shares
                # between runners): the ordered single-worker run is the replay that counts
                log("%s: the parallel replay died (%s); continuing with the ordered single-worker run" % (name, fatal_text(p)[:120]))
                self.assumptions.append("%s: replayed by one worker because the parallel replay died: %s" % (name, fatal_text(p)[:160]))
                p, cmd = p2, cmd + ["-workers", "1"]
            elif not go_fatal(p2) or not os.path.exists(mark):
                raise Broken("driver crashed in %s and the crash did not recur in order: %s" % (name, p.stderr[-1500:]))
            if go_fatal(p):
                self.failures.append({"family": family, "kind": "state", "payload": open(mark).read(), "site": "crash",
                                      "input": "(see the replay file)", "expected": "a value or an error",
                                      "observed": "the process died: " + fatal_text(p2), "stage": name, "race": race})
                self.stages.append({"stage": name, "kind": "replay", "family": family, "cases": 0, "crashed": True, "wall_s": round(time.time() - t, 1)})
                log("%s: the process died in the real code: %s" % (name, fatal_text(p2)[:200]))
                return {"cases": 0, "mismatches": [], "crashed": True}
        if p.returncode not in (0, 1, 3) and not (race and p.returncode == 66):
            raise Broken("driver failed in %s (exit %d): %s" % (name, p.returncode, (p.stdout + p.stderr)[-2000:]))
        try:
            rep = json.loads(p.stdout.strip().split("\n")[-1])
        except Exception:
            raise Broken("driver output unreadable in %s: %s" % (name, (p.stdout + p.stderr)[-2000:]))
        if rep["cases"] < min_cases and not rep.get("hang"):
            raise Broken("vacuous replay %s: %d cases < %d" % (name, rep["cases"], min_cases))
        self.replayed += rep["cases"]
        self.nontrivial += rep["nontrivial"]
        for s in rep.get("samples", [])[:3]:
            if len(self.samples) < 12:
                self.samples.append({"stage": name, "case": s})
        for m in rep["mismatches"] + ([rep["hang"]] if rep.get("hang") else []):
            self.failures.append({"family": family, "kind": "state", "payload": m["state"], "site": m["site"],
                                  "input": m["input"], "expected": m["expected"], "observed": m["observed"],
                                  "stage": name, "race": race, "cmd": cmd})
        self.stages.append({"stage": name, "kind": "replay", "family": family, "cases": rep["cases"],
                            "nontrivial": rep["nontrivial"], "skipped": rep["skipped"], "mismatches": rep["mismatch_count"],
                            "by_site": rep["by_site"], "by_sub": rep.get("by_sub", {}), "wall_s": round(time.time() - t, 1)})
        log("%s: replayed %d cases, %d mismatches %s in %.1fs" % (name, rep["cases"], rep["mismatch_count"], rep["by_site"], time.time() - t))
        if rep.get("hang"):
            log("%s: driver reported a hang" % name)
        return rep

    def _race_report(self, name, family, cmd, p, race):
        """A report of the Go race detector is a violation of 'without data races' (C09)."""
        if race and "WARNING: DATA RACE" in p.stderr:
            i = p.stderr.index("WARNING: DATA RACE")
            self.failures.append({"family": family, "kind": "race", "payload": json.dumps({"cmd": cmd}), "site": "race",
                                  "input": " ".join(cmd[1:4]), "expected": "no report of the race detector",
                                  "observed": p.stderr[i:i + 1500], "stage": name, "race": True})
            log("%s: the race detector reported a data race" % name)

    # ------------------------------------------------------------------ record (code -> trace) and validate
    def record(self, name, family, args, race=False, timeout=1800, env_extra=None):
        fv = self.build(race)
        outp = os.path.join(self.scratch, name + ".ndjson")
        env = dict(os.environ)
        env.update(env_extra or {})
        cmd = [fv, "record", family, "-out", outp, "-seed", str(self.seed)] + [str(a) for a in args]
        t = time.time()
        try:
            p = subprocess.run(cmd, capture_output=True, text=True, errors="replace", timeout=timeout, env=env)
        except subprocess.TimeoutExpired:
            if self.failures:
                # an earlier stage already holds failures of the real code (typically a hang): decide on those
                log("%s: recorder timeout; stopping with the failures recorded so far" % name)
                raise Crashed()
            raise Broken("recorder timeout %s" % name)
        self._race_report(name, family, cmd, p, race)
        if go_fatal(p) or p.returncode == 5:
            # the real code killed the recording process, or an evaluation never returned (exit 5 of the watchdog)
            self.failures.append({"family": family, "kind": "crashcmd", "payload": json.dumps({"cmd": cmd, "env": env_extra or {}}), "site": "crash",
                                  "input": " ".join(cmd[1:]), "expected": "a value or an error",
                                  "observed": "the process died: " + fatal_text(p), "stage": name, "race": race})
            log("%s: the recording process died in the real code: %s" % (name, fatal_text(p)[:200]))
            raise Crashed()
        if p.returncode != 0 and not (race and p.returncode == 66):
            raise Broken("recorder failed in %s (exit %d): %s" % (name, p.returncode, (p.stdout + p.stderr)[-2000:]))
        n = sum(1 for l in open(outp, encoding="utf-8").read().split("\n") if l)
        if n == 0:
            raise Broken("recorder %s produced no events" % name)
        self.stages.append({"stage": name, "kind": "record", "family": family, "events": n, "wall_s": round(time.time() - t, 1)})
        log("%s: recorded %d events in %.1fs" % (name, n, time.time() - t))
        self.trace_cmd[outp] = {"cmd": cmd, "env": env_extra or {}, "race": race}
        return outp

    def validate(self, name, module_rel, cfg_rel, tracef, family, shards=1, timeout=1800, heap="4g", constants=None, cut=None):
        """Trace validation: TLC steps through the recorded events; the trace specification
        prints one line VERDICT <json list of failing event indices>; every event must be consumed."""
        lines = [l for l in open(tracef, encoding="utf-8").read().split("\n") if l]   # not splitlines(): U+2028/U+0085 occur in texts
        n = len(lines)
        shards = max(1, min(shards, n))
        per = (n + shards - 1) // shards
        # shard boundaries; with cut="<ev>" a shard may only begin at an event of that kind (traces whose
        # specification carries state from one event to the next, e.g. the locals of a program)
        starts = [0]
        for si in range(1, shards):
            b = max(si * per, starts[-1] + 1)
            if cut:
                while b < n and ('"ev":"%s"' % cut) not in lines[b]:
                    b += 1
            if b < n and b > starts[-1]:
                starts.append(b)
        ends = starts[1:] + [n]
        procs = []
        t = time.time()
        for si in range(len(starts)):
            chunk = lines[starts[si]:ends[si]]
            if not chunk:
                continue
            d, mod, cfg = self._prep("%s-%d" % (name, si), module_rel, cfg_rel, constants)
            open(os.path.join(d, "trace.ndjson"), "w").write("\n".join(chunk) + "\n")
            cmd = JAVA + ["-Xmx" + heap, "-Xss512m", "-cp", CP, "tlc2.TLC", "-workers", "1",
                          "-metadir", os.path.join(d, "meta"), "-config", cfg, mod]
            procs.append((si, len(chunk), d, subprocess.Popen(cmd, cwd=d, stdout=subprocess.PIPE, stderr=subprocess.STDOUT, text=True, errors="replace")))
        bad = []
        pinned = 0
        for si, cnt, d, p in procs:
            try:
                out, _ = p.communicate(timeout=timeout)
            except subprocess.TimeoutExpired:
                p.kill()
                raise Broken("trace validation timeout %s shard %d" % (name, si))
            open(os.path.join(d, "tlc.out"), "w").write(out)
            m = re.search(r"VERDICT (\[[0-9, ]*\])", out)
            if p.returncode != 0 or not m or "TRACE-CONSUMED %d" % cnt not in out:
                raise Broken("trace validation failed in %s shard %d (exit %s):\n%s" % (name, si, p.returncode, out[-3000:]))
            idx = json.loads(m.group(1))
            mp = re.search(r"TRACE-PINNED (\d+)", out)
            pinned += int(mp.group(1)) if mp else cnt
            for i in idx:
                bad.append(starts[si] + i - 1)   # TLC indices are 1-based
        self.validated += n
        self.nontrivial += pinned
        for i in bad:
            ev = json.loads(lines[i])
            self.failures.append({"family": family, "kind": "event", "payload": lines[i], "site": ev.get("site", "event"),
                                  "input": ev.get("input", ""), "expected": "(specification operator, see " + module_rel + ")",
                                  "observed": json.dumps(ev.get("res", ev))[:400], "stage": name,
                                  "module": module_rel, "cfg": cfg_rel, "constants": constants,
                                  "reccmd": self.trace_cmd.get(tracef), "shards": shards, "cut": cut})
        for l in lines[:2]:
            if len(self.samples) < 12:
                self.samples.append({"stage": name, "event": json.loads(l)})
        self.stages.append({"stage": name, "kind": "trace-validation", "module": os.path.basename(module_rel), "events": n,
                            "rejected": len(bad), "pinned": pinned, "shards": len(procs), "wall_s": round(time.time() - t, 1)})
        log("%s: validated %d events, %d rejected in %.1fs" % (name, n, len(bad), time.time() - t))
        return bad

    def selftest_binding(self, name, module_rel, cfg_rel, tracef, family, corrupt, constants=None):
        """Binding self-test: corrupt one recorded field; the trace must then be rejected at that event."""
        if any(f.get("stage", "").startswith(name) for f in self.failures):
            # the trace as recorded is already rejected somewhere: the self-test (corrupt an accepted trace, see it rejected
            # exactly there) has no clean trace to start from; the recorded failures are decided on their own
            log("%s: binding self-test skipped (the recorded trace is rejected as it is)" % name)
            return
        lines = [l for l in open(tracef, encoding="utf-8").read().split("\n") if l]
        idx, newline = corrupt(lines)
        lines[idx] = newline
        if json.loads(lines[0]).get("ev") not in ("reset", "op", "start"):   # independent events: a window around the corrupted one suffices
            lo = max(0, idx - 10)
            lines, idx = lines[lo:idx + 10], idx - lo
        p = os.path.join(self.scratch, name + "-corrupt.ndjson")
        open(p, "w").write("\n".join(lines) + "\n")
        saved = (self.failures, self.validated, self.samples, self.stages)
        self.failures, self.samples, self.stages = [], [], []
        try:
            bad = self.validate(name + "-selftest", module_rel, cfg_rel, p, family, constants=constants)
        finally:
            self.failures, self.validated, self.samples, self.stages = saved
        if idx not in bad:
            raise Broken("binding self-test failed: corrupted event %d of %s was accepted by %s" % (idx, name, module_rel))
        self.stages.append({"stage": name + "-selftest", "kind": "binding-self-test", "corrupted_event": idx, "rejected": True})
        log("%s: binding self-test ok (corrupted event %d rejected)" % (name, idx))

    # ------------------------------------------------------------------ verdict
    def known(self):
        p = os.path.join(VERIF, "known_findings.json")
        if not os.path.exists(p):
            return []
        return [k for k in json.load(open(p)).get("open", []) if k["property"] == self.pid]

    def confirm(self, f):
        """Re-execute one failing case in isolation against the freshly built driver."""
        fv = self.build(f.get("race", False))
        if f["kind"] == "race":
            cmd = json.loads(f["payload"])["cmd"]
            cmd[0] = fv
            for _ in range(8):          # a race needs the right timing: several attempts
                try:
                    p = subprocess.run(cmd, capture_output=True, text=True, errors="replace", timeout=1800)
                except subprocess.TimeoutExpired:
                    return False
                if "WARNING: DATA RACE" in p.stderr:
                    return True
            return False
        if f["kind"] == "crashcmd":
            d = json.loads(f["payload"])
            d["cmd"][0] = fv
            try:
                p = subprocess.run(d["cmd"], capture_output=True, text=True, errors="replace", timeout=1800, env=dict(os.environ, **d["env"]))
            except subprocess.TimeoutExpired:
                return False
            return go_fatal(p) or p.returncode == 5
        if f["kind"] == "state":
            sf = os.path.join(self.scratch, "confirm.state")
            open(sf, "w").write(f["payload"])
            try:
                p = subprocess.run([fv, "one", f["family"], sf], capture_output=True, text=True, errors="replace", timeout=120)
            except subprocess.TimeoutExpired:
                return True   # reproducible hang
            if p.returncode == 1 or go_fatal(p):
                return True
            if p.returncode == 0:
                if f["site"] == "hang" and f.get("cmd"):
                    # not a hang on its own: a hang that needs what ran before it recurs when the cases run in order
                    cmd = [fv] + f["cmd"][1:4] + ["-workers", "1"]
                    try:
                        p = subprocess.run(cmd, capture_output=True, text=True, errors="replace", timeout=3600)
                    except subprocess.TimeoutExpired:
                        return False
                    return p.returncode == 3
                return False
            raise Broken("confirmation run failed: " + p.stdout + p.stderr)
        else:
            ef = os.path.join(self.scratch, "confirm.event.json")
            open(ef, "w").write(f["payload"] + "\n")
            outp = os.path.join(self.scratch, "confirm.ndjson")
            p = subprocess.run([fv, "record", f["family"], "-out", outp, "-one", ef], capture_output=True, text=True, errors="replace", timeout=300)
            if go_fatal(p) or p.returncode == 5:
                return True      # re-executing the case killed the process in the real code: reproduced, and worse
            if p.returncode != 0:
                raise Broken("confirmation recorder failed: " + p.stdout + p.stderr)
            saved = (self.failures, self.validated, self.samples, self.stages)
            self.failures, self.samples, self.stages = [], list(self.samples), list(self.stages)
            try:
                bad = self.validate("confirm", f["module"], f["cfg"], outp, f["family"], constants=f.get("constants"))
            finally:
                self.failures, self.validated, self.samples, self.stages = saved
            return len(bad) > 0

    def confirm_in_context(self, f):
        """A failure that does not reproduce on its own may depend on what the process did before it (state the real code
        keeps between calls).  It counts when the identical, deterministic run - the same cases in the same order, one
        worker - fails again at the same case."""
        if f["kind"] == "state" and f.get("cmd") and f["site"] not in ("hang", "crash"):
            fv = self.build(f.get("race", False))
            key = json.dumps(f["cmd"][1:4])
            if key not in self.context_cache:
                cmd = [fv] + f["cmd"][1:4] + ["-workers", "1"]
                seen = None
                for _ in range(2):            # twice: the failure must recur in both ordered runs
                    try:
                        p = subprocess.run(cmd, capture_output=True, text=True, errors="replace", timeout=3600)
                        rep = json.loads(p.stdout.strip().split("\n")[-1])
                    except Exception:
                        rep = {"mismatches": []}
                    cur = {m["state"]: m for m in rep["mismatches"]}
                    seen = cur if seen is None else {k: v for k, v in seen.items() if k in cur}
                self.context_cache[key] = seen
            stable = self.context_cache[key]
            if f["payload"] in stable:
                return f
            # the candidate came from a run in another order; any case of the same site that fails in both ordered
            # runs is as good a witness
            for m in stable.values():
                if m["site"] == f["site"]:
                    return dict(f, payload=m["state"], input=m["input"], expected=m["expected"], observed=m["observed"])
            return None
        if f["kind"] == "event" and f.get("reccmd"):
            rc = f["reccmd"]
            fv = self.build(rc.get("race", False))
            key = json.dumps(rc["cmd"][1:])
            if key not in self.context_cache:
                outp = os.path.join(self.scratch, "context-%d.ndjson" % len(self.context_cache))
                cmd = [fv] + [outp if (i > 0 and rc["cmd"][i - 1] == "-out") else a for i, a in enumerate(rc["cmd"])][1:]
                p = subprocess.run(cmd, capture_output=True, text=True, errors="replace", timeout=3600, env=dict(os.environ, **rc["env"]))
                bad_inputs = set()
                if p.returncode == 0:
                    saved = (self.failures, self.validated, self.samples, self.stages, self.nontrivial)
                    self.failures, self.samples, self.stages = [], list(self.samples), list(self.stages)
                    try:
                        self.validate("context", f["module"], f["cfg"], outp, f["family"], shards=f.get("shards") or 1,
                                      constants=f.get("constants"), cut=f.get("cut"))
                        bad_inputs = set((x["site"], x["input"]) for x in self.failures)
                    finally:
                        self.failures, self.validated, self.samples, self.stages, self.nontrivial = saved
                self.context_cache[key] = bad_inputs
            return f if (f["site"], f["input"]) in self.context_cache[key] else None
        return None

    def finish(self, rule, assumptions=(), extra_cov=None):
        known = self.known()
        by_site = {}
        for f in self.failures:
            by_site.setdefault(f["site"], []).append(f)
        violations, findings, unconfirmed = [], [], 0
        for site, fs in sorted(by_site.items()):
            k = next((k for k in known if k["site"] == site), None)
            conf = None
            # candidates: a few failures of every stage that reported this site (a failure of one stage may depend on the
            # process it ran in, e.g. state left behind by other cases, while another stage's reproduces by itself)
            cands, per_stage = [], {}
            for f in fs:
                per_stage[f["stage"]] = per_stage.get(f["stage"], 0) + 1
                if per_stage[f["stage"]] <= 3:
                    cands.append(f)
            for f in cands[:12]:
                if self.confirm(f):
                    conf = f
                    break
            if conf is None:
                for f in cands[:6]:
                    w = self.confirm_in_context(f)
                    if w:
                        conf = dict(w, in_context=True)
                        log("failure at site %s reproduces only after the cases before it (same run, same order): history-dependent" % site)
                        break
            if conf is None:
                unconfirmed += len(fs)
                log("failure at site %s did not reproduce in isolation (%d cases)" % (site, len(fs)))
                continue
            if k:
                findings.append((k, len(fs), conf))
            else:
                violations.append((site, fs, conf))
        for k in known:
            hit = next((x for x in findings if x[0] is k), None)
            if hit:
                print("KNOWN-FINDING: property=%s %s %s (e.g. %s; %d cases this run)" %
                      (self.pid, k["site"], k["what"], json.dumps(hit[2]["input"])[:160], hit[1]))
            else:
                log("note: open finding %s did not show in this run" % k["site"])
        rdir = os.path.join(os.environ.get("VERIF_EVIDENCE_DIR") or VERIF, "replay")
        os.makedirs(rdir, exist_ok=True)
        nviol = 0
        for site, fs, conf in violations:
            nviol += len(fs)
            h = hashlib.sha1((conf["payload"]).encode()).hexdigest()[:10]
            rp = os.path.join(rdir, "%s-%s.json" % (self.pid, h))
            json.dump({"property": self.pid, "family": conf["family"], "kind": conf["kind"], "payload": conf["payload"],
                       "site": site, "input": conf["input"], "expected": conf["expected"], "observed": conf["observed"],
                       "stage": conf["stage"], "module": conf.get("module"), "cfg": conf.get("cfg"),
                       "constants": conf.get("constants"), "race": conf.get("race", False),
                       "history_dependent": bool(conf.get("in_context")),
                       "cases_at_site": len(fs)}, open(rp, "w"), indent=1)
            print("VIOLATION property=%s replay=%s" % (self.pid, rp))
            print("  site=%s input=%s expected=%s observed=%s" % (site, json.dumps(conf["input"])[:300],
                                                                  conf["expected"][:300], conf["observed"][:300]))
        status1 = self._repo_status()
        if status1 != self.repo_status0:
            raise Broken("the check changed /repo (git status differs)")
        cov = {
            "states": self.states, "transitions": self.transitions,
            "traces_validated_against_impl": self.replayed + self.validated,
            "replayed_model_states": self.replayed, "validated_recorded_events": self.validated,
            "evaluations": self.replayed + self.validated, "distinct_nontrivial": self.nontrivial,
            "rule": rule, "samples": self.samples[:12] or [{"note": "no sample"}],
            "exhaustive": bool(self.exhaustive), "stages": self.stages,
            "known_findings_seen": [k["site"] for k, _, _ in findings],
            "unconfirmed_failures": unconfirmed,
        }
        cov.update(extra_cov or {})
        ev = {"property_id": self.pid, "tier": self.tier, "seed": self.seed, "level": self.level,
              "coverage": cov, "assumptions": list(assumptions) + self.assumptions,
              "wall_s": round(time.time() - self.t0, 1), "violations": nviol}
        evdir = os.environ.get("VERIF_EVIDENCE_DIR") or os.path.join(VERIF, "evidence")
        os.makedirs(evdir, exist_ok=True)
        json.dump(ev, open(os.path.join(evdir, self.pid + ".json"), "w"), indent=1)
        if nviol:
            return 1
        if unconfirmed:
            log("unreproduced failures: machinery problem")
            return 2
        return 0


def main(pid, tier, run):
    ctx = Ctx(pid, tier)
    code = 2
    try:
        code = run(ctx)
    except Crashed:
        try:
            code = ctx.finish("the check stopped where the real code killed the process")
        except Broken as e:
            print("BROKEN property=%s %s" % (pid, e), file=sys.stderr)
            code = 2
    except Broken as e:
        print("BROKEN property=%s %s" % (pid, e), file=sys.stderr)
        code = 2
    finally:
        if os.environ.get("VERIF_KEEP"):
            log("scratch kept at", ctx.scratch)
        else:
            ctx.cleanup()
    return code
