"""C05 Ordering and equality are lawful and representation-independent.
Model: MC_Eval_c05 - all ordered pairs of 46 value spellings (numbers written 1, 1.0, 1e0, 10e-1, 100e-2; 0, 0.0, 0e3, -0;
results of arithmetic; 34-digit neighbours; 2^53+1; strings incl. multi-byte; booleans; null; the same values supplied
as Go int / int32 / int64 / float64 / decimal / string / bool / nil / typed nil data) x the 8 comparison operators."""
from checks.evalcheck import run_family

def run(ctx):
    run_family(ctx, "c05", 16000)
    # random deeper programs over every operator, builtin and value kind, recorded from the real evaluator and validated by Trace_Expr
    tr = ctx.record("prog-random", "expr", ["-mode", "prog", "-n", 30000 if ctx.thorough else 2000, "-seed", ctx.seed * 100 + 5])
    ctx.validate("prog-random-validate", "trace/Trace_Expr.tla", "trace/Trace_Expr.cfg", tr, "expr", shards=14 if ctx.thorough else 2)
    # "no matter how numbers are written": seeded random spellings (separators, fractions, exponents, signs) lexed by the
    # specification from the bytes; the value the real code gives the literal must be the specification's
    lt = ctx.record("literals-random", "parse", ["-mode", "numbers", "-n", 40000 if ctx.thorough else 3000, "-seed", ctx.seed * 100 + 45])
    ctx.validate("literals-random-validate", "trace/Trace_Parse.tla", "trace/Trace_Parse.cfg", lt, "parse", shards=14 if ctx.thorough else 3)
    # the same kind of programs judged node by node (Trace_Nodes): every operator, member access and call on the values its
    # operands were observed to have, so a cell is checked wherever it occurs, not only where the whole program is pinned
    nd = ctx.record("nodes-random", "nodes", ["-n", 8000 if ctx.thorough else 700, "-seed", ctx.seed * 100 + 55])
    ctx.validate("nodes-random-validate", "trace/Trace_Nodes.tla", "trace/Trace_Nodes.cfg", nd, "nodes", shards=14 if ctx.thorough else 2, cut="start")
    return ctx.finish(
        rule="all ordered pairs of value spellings x {< > <= >= == != === !==} evaluated by the real evaluator; compared: the "
             "boolean result; plus seeded random programs (depth <= 4, all operators / builtins / value kinds) validated by the trace specification; non-trivial = pairs the property pins (number x number, string x string, === on null/bool/number/string, "
             "== on same kinds)",
        assumptions=["< > <= >= across kinds and == across kinds are unpinned"])
