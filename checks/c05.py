"""C05 Ordering and equality are lawful and representation-independent.
Model: MC_Eval_c05 - all ordered pairs of 46 value spellings (numbers written 1, 1.0, 1e0, 10e-1, 100e-2; 0, 0.0, 0e3, -0;
results of arithmetic; 34-digit neighbours; 2^53+1; strings incl. multi-byte; booleans; null; the same values supplied
as Go int / int32 / int64 / float64 / decimal / string / bool / nil / typed nil data) x the 8 comparison operators."""
from checks.evalcheck import run_family

def run(ctx):
    run_family(ctx, "c05", 16000)
    return ctx.finish(
        rule="all ordered pairs of value spellings x {< > <= >= == != === !==} evaluated by the real evaluator; compared: the "
             "boolean result; non-trivial = pairs the property pins (number x number, string x string, === on null/bool/number/string, "
             "== on same kinds)",
        assumptions=["< > <= >= across kinds and == across kinds are unpinned"])
