"""C09 A parsed formula can be shared across goroutines.
Model: MC_Conc - G goroutines step through the evaluation of *shared* trees (one gate per evaluated node), each with its own
runner and data map; every interleaving is a state; action property SharedReadOnly (no step changes a shared tree), invariants
SeqEquivalent (each goroutine ends with the sequential FEval result) and NoInterference.
Replay: every complete schedule is executed on real goroutines: a blocking resolve hook (arrive / permit handshake) lets them
pass their gates in exactly the model's order, in a binary built with the race detector; each goroutine's value and final
data map must be the model's.  Free-running direction: G = 2, 4, 16 goroutines with GOMAXPROCS 1, 2, 16 evaluate, analyse and
parse concurrently without gates under the race detector; Trace_Conc validates every distinct (workload, outcome) against the
sequential result; any report of the race detector is a violation."""

def run(ctx):
    th = ctx.thorough
    for w, mn in [("W2", 900), ("W2b", 3400), ("W3", 5200)] + ([("W3b", 500000)] if th else []):
        r = ctx.tlc("conc-" + w, "mc/MC_Conc.tla", "mc/MC_Conc_%s.cfg" % w, min_states=mn, timeout=3000, heap="8g")
        ctx.replay("conc-%s-gated" % w, "conc", r["dump"], race=True, min_cases=mn // 5, workers=8)
    for g, procs, iters in [(2, 1, 3000), (4, 2, 2000), (16, 16, 1500)] + ([(16, 4, 20000), (64, 16, 5000)] if th else []):
        name = "conc-free-g%d-p%d" % (g, procs)
        tr = ctx.record(name, "conc", ["-g", g, "-procs", procs, "-iters", iters], race=True, timeout=1800)
        ctx.validate(name + "-validate", "trace/Trace_Conc.tla", "trace/Trace_Conc.cfg", tr, "conc")
    # deeply nested shared trees evaluated by all goroutines at the same time (no race detector: its shadow stack is the limit)
    for g, depth, iters in [(16, 3000, 400)] + ([(64, 2000, 100)] if th else []):
        name = "conc-deep-g%d-d%d" % (g, depth)
        tr = ctx.record(name, "conc", ["-g", g, "-procs", 16, "-iters", iters, "-deep", depth], timeout=1800)
        ctx.validate(name + "-validate", "trace/Trace_Conc.tla", "trace/Trace_Conc.cfg", tr, "conc")
    return ctx.finish(
        rule="every complete schedule of 2 goroutines x 5 gates (252), 2 x 6 (924) and 3 x 3 (1680)%s executed with a blocking hook under "
             "the race detector; free-running goroutines (G = 2, 4, 16; GOMAXPROCS 1, 2, 16) under the race detector with every distinct "
             "outcome validated; non-trivial = all schedules" % (", 3 goroutines x (5, 3, 6) gates (168 168)" if th else ""),
        assumptions=["absence of data races is observed by the Go race detector on the schedules the model generates and on free-running runs",
                     "the gate serialises goroutines between gates; memory races inside a segment are exposed only by the free-running runs"])

