"""C15 Source ranges nest and re-parse; errors point at the right line and column.
Models: MC_Grammar (token spans of every node; RangesNest, SubtextReparses as invariants), MC_Lines (line-start table and
(line, column) of every offset for every text over the six line-break forms; LineColMonotone, LineColInverse).
Replay: accepted token sequences are rendered with varied trivia; every node's (pos, end) must be the byte extent of its
token span and its own text must re-parse to the same subtree; ComputeLineStarts / PositionToLineAndCharacter /
GetLineAndCharacterOfPosition on every text x offset.  Trace validation: random rejected inputs - the error text must be
pos(line, column) error(code) of the first diagnostic per FLines.LineCol, every diagnostic inside the text."""
import json

def corrupt(lines):
    for i, l in enumerate(lines):
        e = json.loads(l)
        if e.get("shape") and e["shape"][1] > 0:
            e["shape"][1] -= 1
            return i, json.dumps(e)
    raise RuntimeError("no event with an error shape")

def run(ctx):
    th = ctx.thorough
    r = ctx.tlc("grammar-class", "mc/MC_Grammar.tla", "mc/MC_Grammar_class.cfg", {"K": 5 if th else 4}, min_states=30000, timeout=3400, heap="14g")
    ctx.replay("ranges-replay", "ranges", r["dump"], min_cases=2000)
    r = ctx.tlc("grammar-random", "mc/MC_GrammarRandom.tla", "mc/MC_GrammarRandom.cfg", {"Steps": 20000 if th else 1500},
                workers=1, tlc_seed=ctx.seed + 7, min_states=1000, timeout=3400)
    ctx.replay("ranges-random-replay", "ranges", r["dump"], min_cases=1000)
    r = ctx.tlc("lines", "mc/MC_Lines.tla", "mc/MC_Lines.cfg", {"K": 7 if th else 6}, min_states=9000, timeout=3000)
    ctx.replay("lines-replay", "lines", r["dump"], min_cases=9000)
    tr = ctx.record("parse-random", "parse", ["-n", 30000 if th else 2500, "-maxlen", 80])
    ctx.validate("parse-random-validate", "trace/Trace_Parse.tla", "trace/Trace_Parse.cfg", tr, "parse", shards=12 if th else 3)
    ctx.selftest_binding("parse-random", "trace/Trace_Parse.tla", "trace/Trace_Parse.cfg", tr, "parse", corrupt)
    return ctx.finish(
        rule="every accepted token sequence of the class enumeration rendered with varied trivia (every node range + re-parse of "
             "every node's text); every text of <= %d units over {a, LF, CR, U+2028, U+2029, U+0085} x every offset; seeded "
             "random / mutated / line-break-rich texts validated by the trace specification (diagnostic positions, error shape); "
             "non-trivial = trees with more than one node, texts with a line break, rejected inputs" % (7 if th else 6),
        assumptions=["which offset a diagnostic is reported at and its message are unpinned",
                     "errors raised by the end-of-input assertion carry no diagnostic and no position"])
