"""C18 Numeric builtins and bit operators compute what their names say.
Model: MC_Eval_c18 - abs, ceil, floor, round, roundBank, toInt, toFloat, finite on a grid of ties, signs, zeros, near-integers,
15-digit and scaled values; max/min on argument lists of length 1-3 and 6 (and spread); toFloat(toString(x)) === x; conversions
of texts; & | ^ on all pairs of an 18-integer grid up to +-(2^53-1), ~ and ~~.  Invariant NamesSay states the defining bounds
(least integer >= x, within 1/2, ties to even, truncation) independently of the operators that compute the expected values."""
from checks.evalcheck import run_family

def run(ctx):
    run_family(ctx, "c18", 2200)
    return ctx.finish(
        rule="every call / operator application of the family evaluated by the real evaluator; compared: exact decimal result; round at "
             "a tie accepts either neighbour; non-trivial = pinned cases",
        assumptions=["sqrt, exp, ln, log (15 significant digits) are not decided by this check yet: see DESIGN.md section 6",
                     "results on non-finite arguments and integers beyond 2^53 are unpinned"])
