"""C18 Numeric builtins and bit operators compute what their names say.
Model: MC_Eval_c18 - abs, ceil, floor, round, roundBank, toInt, toFloat, finite on a grid of ties, signs, zeros, near-integers,
15-digit and scaled values; max/min on argument lists of length 1-3 and 6 (and spread); toFloat(toString(x)) === x; conversions
of texts; & | ^ on all pairs of an 18-integer grid up to +-(2^53-1), ~ and ~~.  Trace validation (Trace_Math): sqrt, exp, ln, log recorded on anchors and
seeded random arguments of up to 15 significant digits and judged by FTranscend (sqrt by squaring, exp against a fixed-point
Taylor evaluation with 28 correct digits, ln and log through exp).  Invariant NamesSay states the defining bounds
(least integer >= x, within 1/2, ties to even, truncation) independently of the operators that compute the expected values."""
from checks.evalcheck import run_family

import json

def corrupt(lines):
    for i, l in enumerate(lines):
        e = json.loads(l)
        if len(e["r"][1]) >= 15:
            e["r"][1][12] = (e["r"][1][12] + 3) % 10        # the 13th significant digit
            return i, json.dumps(e)
    raise RuntimeError("nothing to corrupt")

def run(ctx):
    run_family(ctx, "c18", 2200)
    # numeric builtins inside random arithmetic programs, every call node judged from the observed values of its arguments
    nd = ctx.record("nodes-arith", "nodes", ["-n", 6000 if ctx.thorough else 400, "-profile", "arith", "-seed", ctx.seed * 100 + 68])
    ctx.validate("nodes-arith-validate", "trace/Trace_Nodes.tla", "trace/Trace_Nodes.cfg", nd, "nodes", shards=16 if ctx.thorough else 4, timeout=3400, cut="start")
    # sqrt, exp, ln, log: recorded from the real builtins, judged by the fixed-point oracle FTranscend
    tr = ctx.record("math", "math", ["-n", 1000 if ctx.thorough else 108])
    ctx.validate("math-validate", "trace/Trace_Math.tla", "trace/Trace_Math.cfg", tr, "math", shards=16 if ctx.thorough else 12, timeout=3400)
    ctx.selftest_binding("math", "trace/Trace_Math.tla", "trace/Trace_Math.cfg", tr, "math", corrupt)
    return ctx.finish(
        rule="every call / operator application of the family evaluated by the real evaluator; compared: exact decimal result; round at "
             "a tie accepts either neighbour; non-trivial = pinned cases",
        assumptions=["sqrt / exp / ln / log: 'agree to 15 significant digits' is read as a relative error of at most 5e-15; random exp arguments below 40 in magnitude, whole-number anchors up to 100; "
                     "the oracle evaluates exp in 32-decimal fixed point (relative error < 1e-28) and checks itself on known constants",
                     "results on non-finite arguments and integers beyond 2^53 are unpinned"])
