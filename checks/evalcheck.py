"""Shared runner of the MC_Eval_* program families (one evaluation of one formula against one data map)."""

def run_family(ctx, fam, min_states, families=("eval",), heap="10g", timeout=3000):
    r = ctx.tlc("eval-" + fam, "mc/MC_Eval_%s.tla" % fam, "mc/MC_Eval_%s.cfg" % fam, min_states=min_states, heap=heap, timeout=timeout)
    for f in families:
        ctx.replay("eval-%s-%s" % (fam, f), f, r["dump"], min_cases=min_states // 2)
    return r
