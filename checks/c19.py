"""C19 Date builtins agree with the proleptic Gregorian calendar and preserve instants.
Model: MC_Eval_c19 (process-local zone UTC) - FCalendar's days-from-civil / civil-from-days arithmetic (invariant CalendarSane:
inverse, consecutive days across month and year ends, leap rules, known weekdays); date with months -13..26 and days -40..367,
all civil fields and Unix milliseconds of the result, addDate over a grid of shifts, useTimezone with fixed-offset zones and
unknown zones, timeFormat for layouts built from 2006 01 02 15 04 05.
Trace validation (Trace_Time): the same builtins recorded under the process-local zones UTC, America/New_York,
Australia/Lord_Howe (30-minute DST) and Asia/Shanghai; every time value carries the offset Go's zone database reports and the
specification checks the civil arithmetic given that offset; now / toDay lie in the wall-clock bracket of the call."""
import json

def corrupt(lines):
    for i, l in enumerate(lines):
        e = json.loads(l)
        if e["ev"] == "fields":
            e["fields"][6] = (e["fields"][6] + 1) % 7
            return i, json.dumps(e)
    raise RuntimeError("nothing to corrupt")

def run(ctx):
    from checks.evalcheck import run_family
    run_family(ctx, "c19", 9000)
    n = 1500 if ctx.thorough else 150
    for tz in ["UTC", "America/New_York", "Australia/Lord_Howe", "Asia/Shanghai"] + (["Europe/London", "Asia/Kolkata", "America/Sao_Paulo"] if ctx.thorough else []):
        name = "time-" + tz.split("/")[-1]
        tr = ctx.record(name, "time", ["-n", n], env_extra={"VERIF_TZ": tz})
        ctx.validate(name + "-validate", "trace/Trace_Time.tla", "trace/Trace_Time.cfg", tr, "time", shards=4 if ctx.thorough else 1)
    ctx.selftest_binding(name, "trace/Trace_Time.tla", "trace/Trace_Time.cfg", tr, "time", corrupt)
    return ctx.finish(
        rule="date(y, m, d) for 8 years x 15 months x 15 days with all fields, addDate shifts, zones and layouts (replayed, zone UTC); "
             "seeded random dates, times of day, zone changes, shifts and layouts recorded under 4 process-local zones and validated "
             "event by event; non-trivial = all",
        assumptions=["zone offsets are those Go's time package reports (its zone database is trusted)",
                     "addDate on a time of day that does not exist in the target zone (DST gap) is not generated",
                     "layouts other than those built from 2006 01 02 15 04 05 and - / : space T are unpinned"])
