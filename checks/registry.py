"""Per-property registration data; bin/mkmanifest turns it into MANIFEST.json."""
REG = {
 "C02": dict(
  text="FGrammar states the grammar twice (executable precedence-climbing ParseTokens; declarative WF + Unparse); TLC checks "
       "ParseTokens(s)=T => WF(T) /\\ Unparse(T)=s in every state of the exhaustive enumeration of token sequences (k<=4 quick, "
       "k<=5 thorough, 31-symbol class alphabet incl. line-break variants); every enumerated sequence is then replayed into the "
       "real parser and the projected tree / rejection compared with the specification's. Further models: the operator ladder (every a op b op c op d), postfix chains with line-break variants (k<=7), every single-token near miss (deletion, insertion, replacement, swap) of 14 canonical sentences (MC_NearMiss), and a seeded random walk over deep trees with a one-token mutation of every spelling; the specification's parser says which near misses are still sentences.",
  note="Trusted: TLC, the Go projection of the AST (harness/proj), one representative lexeme per token class. Unpinned corners "
       "(keyword as member name, f(...)) are only checked for totality.",
  technique="TLA+ grammar specification model-checked with TLC; bounded-exhaustive replay of TLC states into the real parser",
  design="DESIGN.md section 4/C02"),
 "C01": dict(
  text="ParseTotal / GrammarSound hold in every state of the exhaustive enumeration of token sequences over the full token "
       "alphabet, LexProgress / LexTiling in every state of the byte-level enumeration; every enumerated input is replayed into "
       "the real parser under recover + watchdog and the outcome (complete tree or rejection) compared with the specification's.",
  note="Trusted: TLC, the AST projection (nil children, missing tokens and absent lists are projected, never repaired). "
       "Time proportionality is observed on the real code, not by TLC.",
  technique="TLA+ lexer + grammar specification model-checked with TLC; bounded-exhaustive replay into the real parser",
  design="DESIGN.md section 4/C01"),
 "C12": dict(
  text="FLexer's numeric-literal automaton and FDecimal.FromLiteral (exact digit-sequence arithmetic) define the number of "
       "every spelling; TLC enumerates every string over the literal alphabet embedded in a formula, checks the lexical "
       "invariants, and every case is replayed: rejection must coincide and each literal's value in the real evaluator must be "
       "exactly the specification's <<sign, digits, exponent>>.",
  note="Trusted: TLC, decimal.Big.Decompose for the exact projection of the evaluated literal.",
  technique="TLA+ lexical specification + exact decimal arithmetic in TLA+, TLC enumeration replayed into the real parser/evaluator",
  design="DESIGN.md section 4/C12"),
 "C14": dict(
  text="FLexer states the lexical grammar declaratively (trivia, longest-match operator table, numeric automaton, string "
       "decoder, ES5 identifier classes); TLC checks Tiling, LongestMatch and Progress on every text of the bounded enumeration "
       "and computes the class of every critical code point; the dumps are replayed token by token into the real Scanner "
       "(public API) and into the parser, and all 1,114,112 code points are classified by the real predicates; the line-break "
       "rule for '.', '!.' and a call's '(' is checked on every postfix chain of up to 7 symbols (MC_Grammar postfix alphabet).",
  note="Trusted: TLC, frozen ES5 tables (cross-checked against Unicode categories). Extents of malformed lexemes are unpinned.",
  technique="TLA+ lexical specification model-checked with TLC; bounded-exhaustive replay into the real scanner and parser",
  design="DESIGN.md section 4/C14"),
 "C03": dict(
  text="FEval gives every formula an outcome in {value, error} (misuse listed by the statement pinned to 'error', unpinned cells "
       "marked 'unspec' = any value or error); TLC checks EvalTotal on the specification over every builtin / host function x "
       "argument tuples of every value kind x spread, every operator x operand pair, member access and calls of non-functions; "
       "each case is replayed under recover + watchdog: a panic, a hang, a death of the process (fatal runtime error, attributed "
       "to its case by a marked single-worker re-run) or a value together with an error never conforms; random programs recorded "
       "through the resolve hook are validated node by node (Trace_Nodes) and as wholes (Trace_Expr).",
  note="Trusted: TLC, value projection (harness/proj). Bounded families plus seeded random programs, not all programs.",
  technique="TLA+ evaluator specification (FEval/FBuiltins) model-checked with TLC; bounded-exhaustive replay into the real evaluator",
  design="DESIGN.md section 4/C03"),
 "C05": dict(
  text="FEval's comparison cells (numeric order by exact decimal comparison independent of spelling, bytewise string order, "
       "StrictEq, negations, == = === on same kinds) evaluated by TLC on all ordered pairs of 46 value spellings x 8 operators "
       "and replayed into the real evaluator. The negation laws [a == b, a != b] and [a === b, a !== b] are checked over all pairs of all value kinds, also where the comparison itself is unpinned; seeded random literal spellings are lexed by the specification from the bytes (Trace_Parse); random programs are validated node by node (Trace_Nodes).",
  note="Trusted: TLC, FDecimal digit arithmetic (self-checked by MC_Decimal when C04 is run). Cross-kind cells unpinned.",
  technique="TLA+ value/evaluator specification checked with TLC; exhaustive pair grid replayed into the real evaluator",
  design="DESIGN.md section 4/C05"),
 "C06": dict(
  text="One Truthy operator in FEval drives !!, !, ?:, &&, ||, ??; TLC checks FalsyExactly and OnlySelectedBranch on the "
       "specification for 32 condition expressions x branch expressions with side effects x 6 operators (alone and nested) and "
       "every case is replayed: selected operand's value unchanged, only the selected branch's effects (locals, host-call log).",
  note="Trusted: TLC, value projection. Evaluation of the unselected operand of && || ?? is unpinned when observable.",
  technique="TLA+ evaluator specification model-checked with TLC; exhaustive replay with recording host functions",
  design="DESIGN.md section 4/C06"),
 "C07": dict(
  text="Store-passing FEval: `$n = e` binds in the runner's map, `,` / array elements / arguments left to right, invalid targets "
       "are errors; TLC checks the Frame invariant (only `$` entries are added or changed) on every program of the family and each "
       "is replayed: value, host-call order, map afterwards, plus a deep before/after snapshot of the caller's data "
       "(pointer identity and digits of every reachable number). Every history of one runner (MC_Runner, N<=4) is replayed as well, so bindings are observed by later evaluations of the same runner; random programs are validated as wholes and node by node.",
  note="Trusted: TLC, the snapshot function of the driver. Later evaluations by the same runner are covered by the runner model (C20).",
  technique="TLA+ store-passing evaluator specification model-checked with TLC; exhaustive replay + deep data snapshots",
  design="DESIGN.md section 4/C07"),
 "C10": dict(
  text="FFields defines the read paths (lower) and read-or-assigned paths (upper), refusal, the non-local subset, called names and "
       "use of `this`; TLC checks Sufficiency (restricted data map gives the same outcome) on the specification; the real "
       "analysis functions are compared as sets (no duplicates, lower <= reported <= upper) and the real evaluator is run on the "
       "full and on the restricted data map. A failure that appears only after earlier analyses in the same process (state kept between calls) is confirmed by an ordered single-worker re-run.",
  note="Trusted: TLC, tree projection (the compared tree comes from the real parser).",
  technique="TLA+ field-analysis + evaluator specification model-checked with TLC; exhaustive replay into the real analysis and evaluator",
  design="DESIGN.md section 4/C10"),
 "C16": dict(
  text="FEval.Member and identifier resolution (builtin first, then data, else null; typed nil = null; Go ints/floats = numbers) "
       "evaluated by TLC on 15 roots x all dotted paths (depth <= 3) with . and !. and replayed into the real evaluator.",
  note="Trusted: TLC, value projection, data builder (harness/data). Member access on scalars/arrays/functions unpinned.",
  technique="TLA+ evaluator specification checked with TLC; exhaustive path enumeration replayed into the real evaluator",
  design="DESIGN.md section 4/C16"),
 "C20": dict(
  text="FRunner is the simple model (caller maps on a heap, runner = aliased map + auxiliary store); TLC explores every operation "
       "history up to N on one and two runners sharing maps and checks the action properties Frame, AuxInvisible, "
       "ReplaceDiscardsLocals, SetEntryCreatesMap on every transition; each history is replayed on real runners with the full "
       "abstract state compared after every operation, and seeded random long histories recorded from the real code are validated "
       "event by event by the trace specification Trace_Runner (with a binding self-test that corrupts one event). The world has three caller maps (one installed while empty), a field holding 2^53+1, nine formulas (locals read as operands, a local assigned in an unselected operand, bindings before a failure).",
  note="Trusted: TLC, state projection through Resolve(`this`), Get and the caller's own maps.",
  technique="TLA+ state-machine specification model-checked with TLC; exhaustive history replay + TLC trace validation of recorded histories",
  design="DESIGN.md section 4/C20"),
 "C13": dict(
  text="A reference escaper in TLA+ (MC_Strings) writes every character in each of its equivalent forms; TLC checks the "
       "round-trip theorem DecodeString(Escape(t, choices, quote)) = t and 'open literal => lexical error' as an invariant over "
       "all texts <= 3 characters over a 20-character alphabet x all choice vectors x both quotes x {closed, open} (1.8 M "
       "literals); each literal is replayed into the real scanner, parser and evaluator. Stray bytes (0xFF, a lone continuation byte 0x85) are symbols of the alphabet; seeded random literals (all escape forms, stray bytes, every line-break form) are validated by Trace_Parse.",
  note="Trusted: TLC, UTF-8 Encode/Decode of FChars. Malformed / unknown escapes are unpinned.",
  technique="TLA+ lexical specification with a reference escaper, theorem model-checked by TLC; exhaustive replay into scanner, parser, evaluator",
  design="DESIGN.md section 4/C13"),
 "C15": dict(
  text="FGrammar.Spans gives every node its token span; TLC checks RangesNest and SubtextReparses on every accepted sequence, "
       "FLines defines line starts and (line, column) by direct count with LineColMonotone / LineColInverse checked on every "
       "text x offset; replay compares every real node's (pos, end) under varied trivia, re-parses every node's text, and the three "
       "offset helpers; recorded rejections are validated by Trace_Parse (error shape = LineCol of the first diagnostic).",
  note="Trusted: TLC, the driver's rendering offsets. Diagnostic placement and messages are unpinned.",
  technique="TLA+ grammar/line specification model-checked with TLC; exhaustive replay + TLC trace validation of recorded parses",
  design="DESIGN.md section 4/C15"),
 "C17": dict(
  text="FBuiltins defines the string and list builtins on byte sequences and FRegex an independent regular-expression matcher "
       "(position sets); TLC checks the laws of the statement as invariants (LawLeftRight, LawFind, LawPrefixSuffix, LawPad, "
       "LawReplace) and computes the value of every call and law formula of the bounded family, which is replayed into the real evaluator.",
  note="Trusted: TLC. Regular expressions are limited to the oracle's pool (92 patterns: literals, ., classes, * + ?, counted repetition {n} / {n,m}, alternation, anchors).",
  technique="TLA+ specification of the builtins + regex oracle model-checked with TLC; exhaustive replay into the real evaluator",
  design="DESIGN.md section 4/C17"),
 "C18": dict(
  text="FBuiltins/FDecimal define abs, ceil, floor, round (either neighbour at a tie), roundBank, max, min, toInt, toFloat, finite and "
       "the two's-complement bit operators on digit sequences; TLC checks NamesSay (defining bounds) on the specification and computes "
       "every case of the grid family, replayed into the real evaluator; toString is checked through toFloat(toString(x)) === x; "
       "sqrt, exp, ln, log are recorded from the real builtins and judged by FTranscend in Trace_Math (sqrt by squaring, exp against a "
       "32-decimal fixed-point Taylor evaluation that checks itself on known constants, ln and log through exp). Random arithmetic programs are validated node by node; sqrt / exp / ln / log are judged by the fixed-point oracle FTranscend (Trace_Math), with the exact inverses: log of every power of ten 1e-15..1e15, sqrt(x*x) = x for x of up to 15 digits.",
  note="Trusted: TLC, FDecimal. '15 significant digits' is read as relative error <= 5e-15; exp arguments |x| < 40.",
  technique="TLA+ decimal-arithmetic specification model-checked with TLC; exhaustive grid replay into the real evaluator",
  design="DESIGN.md section 4/C18"),
 "C04": dict(
  text="FDecimal is exact arithmetic on digit sequences (half-even rounding to 34 digits, exact remainder, literal parsing, float64 "
       "nearness by integer comparison); TLC checks the oracle's own algebra (OracleSane) and computes every case of the grid "
       "family for replay; seeded random 34-digit operands, chains and float64/int64 data recorded from the real evaluator are "
       "validated event by event by Trace_Expr (sums/products computed, quotients/remainders checked by multiplication brackets, "
       "the returned float64 checked as nearest / within 4 ulp). Operands around the machine-word boundaries (2^31 .. 2^64) under + - *; results of <=15 digits with coefficients padded above 2^53; random literal spellings lexed by the specification (Trace_Parse); random arithmetic programs of literals up to 34 digits validated node by node from the observed values of the children (Trace_Nodes).",
  note="Trusted: TLC, decimal.Big.Decompose and math.Frexp for exact projections, math/big for the remainder witness (verified by TLC).",
  technique="TLA+ exact decimal arithmetic model-checked with TLC; grid replay + TLC trace validation of recorded random arithmetic",
  design="DESIGN.md section 4/C04"),
 "C19": dict(
  text="FCalendar is integer arithmetic on the proleptic Gregorian calendar (days-from-civil and its inverse, carry of out-of-range "
       "months and days, weekday, local fields from instant + offset); TLC checks CalendarSane and computes every case of the "
       "UTC family for replay; under four process-local zones with and without daylight saving the real builtins are recorded "
       "and Trace_Time validates every event (local midnight - or a witnessed jump of the local clock over it -, civil fields, Unix milliseconds on digit sequences, instant "
       "preservation also at every half hour around the offset changes of the target zone, shifts, layouts, now/toDay in the bracket).",
  note="Trusted: TLC, Go's zone database for offsets (zone rules are inputs, not specified).",
  technique="TLA+ calendar specification model-checked with TLC; exhaustive replay (UTC) + TLC trace validation under several zones",
  design="DESIGN.md section 4/C19"),
 "C11": dict(
  text="FCall.CallOutcome states the arity rules (fixed, variadic, spread), the per-kind conversions (truncation, element-wise "
       "slices, nil for interface parameters, identical types) and context injection; TLC checks the arity invariants and "
       "computes the outcome of 1.8 M (signature, arguments, spread, return) cases; each is executed against a function "
       "synthesised with reflect.MakeFunc that records every invocation. Typed Go slices ([]string, []int) are among the arguments; their raw elements are a value kind of their own (goint): pinned towards integer, float and interface parameters, open towards string and *decimal.Big parameters. A parameter whose type is an application interface merely named Context is an ordinary declared parameter (kind appctx).",
  note="Trusted: TLC, reflect.MakeFunc / FuncOf, value projection. Signatures are limited to two parameters.",
  technique="TLA+ call-bridge specification model-checked with TLC; exhaustive replay against reflectively synthesised recording functions",
  design="DESIGN.md section 4/C11"),
 "C08": dict(
  text="MC_Purity has no variable through which one operation could influence another (parse = function of text, fresh-runner "
       "evaluation = function of (tree, data), analysis = function of tree; invariant Functional); every history up to N is "
       "executed in one process with tree re-use and full tree dumps before/after; a long random history recorded from one "
       "process is validated by Trace_Purity, whose history variable holds the first observation of every key; the recording is made "
       "by two processes with opposite prologue orders, so observations are also compared across histories that share no process. The pool includes two Go struct types with the same printed name and different layouts.",
  note="Trusted: TLC, the tree dump of the driver (everything reachable through exported fields and accessors).",
  technique="TLA+ history model checked with TLC; exhaustive history replay + TLC trace validation with a first-observation history variable",
  design="DESIGN.md section 4/C08"),
 "C09": dict(
  text="MC_Conc enumerates every interleaving of G goroutines evaluating shared trees at gate granularity (one gate per evaluated "
       "node) and checks SharedReadOnly, SeqEquivalent and NoInterference; every complete schedule is executed on real goroutines "
       "whose resolve hook blocks until the scheduler permits them, in a -race build, and each goroutine's result is compared with "
       "the model's; free-running goroutines under the race detector (rounds on freshly parsed shared trees, released from one "
       "barrier, no synchronisation between them; one tree whose analysis is refused; 3000-level trees evaluated by all at once) "
       "are validated by Trace_Conc. A race-detector report is a violation.",
  note="Trusted: TLC, the Go race detector (it decides 'without data races' on the explored schedules), the gate handshake.",
  technique="TLA+ interleaving model checked with TLC; schedule replay with a blocking hook under the Go race detector + TLC trace validation of free-running runs",
  design="DESIGN.md section 4/C09"),
}
