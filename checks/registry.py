"""Per-property registration data; bin/mkmanifest turns it into MANIFEST.json."""
REG = {
 "C02": dict(
  text="FGrammar states the grammar twice (executable precedence-climbing ParseTokens; declarative WF + Unparse); TLC checks "
       "ParseTokens(s)=T => WF(T) /\\ Unparse(T)=s in every state of the exhaustive enumeration of token sequences (k<=4 quick, "
       "k<=5 thorough, 31-symbol class alphabet incl. line-break variants); every enumerated sequence is then replayed into the "
       "real parser and the projected tree / rejection compared with the specification's.",
  note="Trusted: TLC, the Go projection of the AST (harness/proj), one representative lexeme per token class. Unpinned corners "
       "(keyword as member name, f(...)) are only checked for totality.",
  technique="TLA+ grammar specification model-checked with TLC; bounded-exhaustive replay of TLC states into the real parser",
  design="DESIGN.md section 4/C02"),
}
