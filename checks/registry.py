"""Per-property registration data; bin/mkmanifest turns it into MANIFEST.json."""
REG = {
 "C02": dict(
  text="FGrammar states the grammar twice (executable precedence-climbing ParseTokens; declarative WF + Unparse); TLC checks "
       "ParseTokens(s)=T => WF(T) /\\ Unparse(T)=s in every state of the exhaustive enumeration of token sequences (k<=4 quick, "
       "k<=5 thorough, 31-symbol class alphabet incl. line-break variants); every enumerated sequence is then replayed into the "
       "real parser and the projected tree / rejection compared with the specification's.",
  note="Trusted: TLC, the Go projection of the AST (harness/proj), one representative lexeme per token class. Unpinned corners "
       "(keyword as member name, f(...)) are only checked for totality.",
  technique="TLA+ grammar specification model-checked with TLC; bounded-exhaustive replay of TLC states into the real parser",
  design="DESIGN.md section 4/C02"),
 "C01": dict(
  text="ParseTotal / GrammarSound hold in every state of the exhaustive enumeration of token sequences over the full token "
       "alphabet, LexProgress / LexTiling in every state of the byte-level enumeration; every enumerated input is replayed into "
       "the real parser under recover + watchdog and the outcome (complete tree or rejection) compared with the specification's.",
  note="Trusted: TLC, the AST projection (nil children, missing tokens and absent lists are projected, never repaired). "
       "Time proportionality is observed on the real code, not by TLC.",
  technique="TLA+ lexer + grammar specification model-checked with TLC; bounded-exhaustive replay into the real parser",
  design="DESIGN.md section 4/C01"),
 "C12": dict(
  text="FLexer's numeric-literal automaton and FDecimal.FromLiteral (exact digit-sequence arithmetic) define the number of "
       "every spelling; TLC enumerates every string over the literal alphabet embedded in a formula, checks the lexical "
       "invariants, and every case is replayed: rejection must coincide and each literal's value in the real evaluator must be "
       "exactly the specification's <<sign, digits, exponent>>.",
  note="Trusted: TLC, decimal.Big.Decompose for the exact projection of the evaluated literal.",
  technique="TLA+ lexical specification + exact decimal arithmetic in TLA+, TLC enumeration replayed into the real parser/evaluator",
  design="DESIGN.md section 4/C12"),
 "C14": dict(
  text="FLexer states the lexical grammar declaratively (trivia, longest-match operator table, numeric automaton, string "
       "decoder, ES5 identifier classes); TLC checks Tiling, LongestMatch and Progress on every text of the bounded enumeration "
       "and computes the class of every critical code point; the dumps are replayed token by token into the real Scanner "
       "(public API) and into the parser, and all 1,114,112 code points are classified by the real predicates.",
  note="Trusted: TLC, frozen ES5 tables (cross-checked against Unicode categories). Extents of malformed lexemes are unpinned.",
  technique="TLA+ lexical specification model-checked with TLC; bounded-exhaustive replay into the real scanner and parser",
  design="DESIGN.md section 4/C14"),
}
