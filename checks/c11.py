"""C11 Host functions are called exactly as declared, or not at all.
Model: MC_Call with FCall.CallOutcome - every signature of up to two parameters over 16 parameter kinds (string, bool, int,
int8-64, float32/64, interface{}, *decimal.Big, time.Time, []string, []int, []interface{}, map[string]interface{}), with and
without a leading context, with and without a variadic tail x argument lists (arity sweep 0..n+2; every value of a 12-value
pool at every position of the fitting lengths; spread with every value last) x the ways of returning (Go int, int32, int64,
float32, float64, string, nil, error); invariants SpreadNeedsVariadic, ArityFixed, ArityVariadic, ReceivedCount.
Replay: the function is synthesised with reflect.MakeFunc and records every invocation: called exactly once or not at all,
the received (converted) arguments, the injected context, the result as a formula number, the error naming the function."""

def run(ctx):
    # a call inside a formula: callee first, arguments left to right, one invocation or none (host-call log observed)
    from checks.evalcheck import run_family
    run_family(ctx, "c11", 500)
    r = ctx.tlc("call", "mc/MC_Call.tla", "mc/MC_Call.cfg", min_states=800000, timeout=3000, heap="12g")
    ctx.replay("call-replay", "call", r["dump"], min_cases=800000)
    return ctx.finish(
        rule="every (signature, argument list, spread, return kind) case of the model executed against a reflectively synthesised "
             "function; compared: not called + error / called once with exactly the expected received arguments and result; "
             "non-trivial = cases the specification pins (called or notcalled)",
        assumptions=["the text a non-string value is formatted to, float conversions that are not exact, numbers beyond the target integer "
                     "type, null for non-interface parameters, bool/number cross conversions and maps are unpinned (call or error, no panic)",
                     "left-to-right evaluation of arguments is observed by the recording functions of the C07 family"])
