"""C17 String builtins obey the laws of prefix, suffix, slice and pad.
Model: MC_Eval_c17 - FBuiltins defines the 18 string / list builtins on byte sequences (and regexp through the independent
position-set matcher FRegex); TLC evaluates every call over all strings on {a, b} up to length 3 (+ multi-byte, case and
whitespace variants), all positions from -2 to beyond the length, pads, lists, 72 regular expressions x 16 subjects, and the
algebraic laws as formulas; invariants LawPrefixSuffix, LawFind, LawLeftRight, LawPad, LawReplace hold on the specification."""
from checks.evalcheck import run_family

def run(ctx):
    run_family(ctx, "c17", 6000)
    # random deeper programs over every operator, builtin and value kind, recorded from the real evaluator and validated by Trace_Expr
    tr = ctx.record("prog-random", "expr", ["-mode", "prog", "-n", 30000 if ctx.thorough else 2000, "-seed", ctx.seed * 100 + 17])
    ctx.validate("prog-random-validate", "trace/Trace_Expr.tla", "trace/Trace_Expr.cfg", tr, "expr", shards=14 if ctx.thorough else 2)
    # the same kind of programs judged node by node (Trace_Nodes): every operator, member access and call on the values its
    # operands were observed to have, so a cell is checked wherever it occurs, not only where the whole program is pinned
    nd = ctx.record("nodes-random", "nodes", ["-n", 8000 if ctx.thorough else 700, "-seed", ctx.seed * 100 + 77])
    ctx.validate("nodes-random-validate", "trace/Trace_Nodes.tla", "trace/Trace_Nodes.cfg", nd, "nodes", shards=14 if ctx.thorough else 2, cut="start")
    return ctx.finish(
        rule="every call / law formula of the family evaluated by the real evaluator; compared: the exact value (bytes, number, boolean) "
             "or the error; plus seeded random programs (depth <= 4, all operators / builtins / value kinds) validated by the trace specification; non-trivial = pinned cases (in-range positions, one-byte ASCII pads, ASCII case/trim, pool regexes)",
        assumptions=["negative lengths for left/right/pads and i > j for mid are 'error or value, no panic'; non-ASCII case mapping "
                     "and trimming, multi-byte pads, replace with an empty pattern are unpinned"])
