"""C10 Referenced-field analysis is exact and sufficient.
Model: MC_Eval_c10 with FFields - formulas over names, dotted paths, calls (callee excluded), assignments, conditionals,
arrays, typeof, parentheses, spread; Fields / FieldsNotLocal as lower/upper sets; invariant Sufficiency on the specification.
Replay: both analysis functions (sets, no duplicates, refusal), and evaluation against the full data map and against the map
restricted to the reported top-level names and called names."""
from checks.evalcheck import run_family

def run(ctx):
    run_family(ctx, "c10", 5000, families=("fields", "eval"))
    return ctx.finish(
        rule="every formula of the family: reported field sets compared with the specification's lower/upper sets; evaluation "
             "against the full and the restricted data map compared with the specification; non-trivial = all",
        assumptions=["a name that occurs only as an assignment target may or may not be reported"])
