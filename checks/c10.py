"""C10 Referenced-field analysis is exact and sufficient.
Model: MC_Eval_c10 with FFields - formulas over names, dotted paths, calls (callee excluded), assignments, conditionals,
arrays, typeof, parentheses, spread; Fields / FieldsNotLocal as lower/upper sets; invariant Sufficiency on the specification.
Replay: both analysis functions (sets, no duplicates, refusal), and evaluation against the full data map and against the map
restricted to the reported top-level names and called names."""
from checks.evalcheck import run_family

import json

def corrupt(lines):
    for i, l in enumerate(lines):
        e = json.loads(l)
        if e["all"][0] == "ok" and len(e["all"][1]) >= 1:
            e["all"][1] = e["all"][1] + ["notRead"]          # a name the formula does not read
            return i, json.dumps(e)
    raise RuntimeError("nothing to corrupt")

def run(ctx):
    run_family(ctx, "c10", 5000, families=("fields", "eval"))
    # random programs (depth <= 4, every operator and builtin): both analysis functions and the sufficiency clause
    tr = ctx.record("fields-random", "fields", ["-n", 60000 if ctx.thorough else 4000])
    ctx.validate("fields-random-validate", "trace/Trace_Fields.tla", "trace/Trace_Fields.cfg", tr, "fields", shards=12 if ctx.thorough else 2)
    ctx.selftest_binding("fields-random", "trace/Trace_Fields.tla", "trace/Trace_Fields.cfg", tr, "fields", corrupt)
    return ctx.finish(
        rule="every formula of the family: reported field sets compared with the specification's lower/upper sets; evaluation "
             "against the full and the restricted data map compared with the specification; plus seeded random programs whose reported sets and full / restricted results are validated by Trace_Fields; non-trivial = all",
        assumptions=["a name that occurs only as an assignment target may or may not be reported"])
