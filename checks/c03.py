"""C03 Evaluation is total: a value or an error, never a panic.
Model: MC_Eval_c03 - every builtin and several host functions called with 0..3 arguments from a pool of values of every
kind (with and without spread), every binary operator on every pair of the pool (incl. odd kinds: uint, map[int]int,
pointer to struct, typed map, struct with unexported field), prefix operators, member access, calls of non-functions.
The specification pins 'error' for the misuse the statement lists and 'value or error' elsewhere; a panic never conforms."""
from checks.evalcheck import run_family

def run(ctx):
    run_family(ctx, "c03", 20000)
    # random deeper programs over every operator, builtin and value kind, recorded from the real evaluator and validated by Trace_Expr
    tr = ctx.record("prog-random", "expr", ["-mode", "prog", "-n", 120000 if ctx.thorough else 6000, "-seed", ctx.seed * 100 + 3])
    ctx.validate("prog-random-validate", "trace/Trace_Expr.tla", "trace/Trace_Expr.cfg", tr, "expr", shards=14 if ctx.thorough else 2)
    # per-node trace validation: every evaluated node of random programs judged locally (evaluation order, selected branch only,
    # operator cells, member access, calls) given its children's observed results
    nd = ctx.record("nodes-random", "nodes", ["-n", 8000 if ctx.thorough else 800, "-seed", ctx.seed * 100 + 53])
    ctx.validate("nodes-random-validate", "trace/Trace_Nodes.tla", "trace/Trace_Nodes.cfg", nd, "nodes", shards=14 if ctx.thorough else 2, cut="start")
    return ctx.finish(
        rule="every program of the family evaluated by the real evaluator under recover and a watchdog; compared: value XOR error "
             "(nil value with an error), pinned values/errors where other properties pin them; plus seeded random programs (depth <= 4, all operators / builtins / value kinds) validated by the trace specification; non-trivial = pinned cases",
        assumptions=["== on containers of different Go types is unpinned; out-of-range string positions: error or clamped value"])
