"""C01 Parsing is total: a tree or an error, never a crash, hang or half-built tree.
Model: MC_Grammar over the full token alphabet (ParseTotal, GrammarSound), MC_Lexer over the scanner
alphabet (LexProgress, LexTiling).  Replay: the real parser under recover + watchdog; an accepted
tree must equal the specification's complete tree (a missing operand, empty name or absent list
shows up as a mismatch)."""

import json

def corrupt_out(lines):
    for i, l in enumerate(lines):
        e = json.loads(l)
        if e["out"] == "reject" and len(e["toks"]) > 2:
            e["out"] = "ok"
            return i, json.dumps(e)
    raise RuntimeError("no event to corrupt")

def corrupt_big(lines):
    e = json.loads(lines[3])
    e["scans"] = 4 * e["ntoks"] + 100
    return 3, json.dumps(e)

def run(ctx):
    th = ctx.thorough
    r = ctx.tlc("grammar-full", "mc/MC_Grammar.tla", "mc/MC_Grammar_full.cfg", {"K": 4 if th else 3},
                min_states=90000, timeout=3400, heap="14g")
    ctx.replay("grammar-full-replay", "grammar", r["dump"], min_cases=90000)
    r = ctx.tlc("lexer-scan", "mc/MC_Lexer.tla", "mc/MC_Lexer_scan.cfg", {"K": 5 if th else 4}, min_states=160000,
                timeout=3400, heap="14g")
    ctx.replay("lexer-scan-parse", "lexparse", r["dump"], min_cases=160000)
    # trace direction: random / mutated / pathological texts recorded from the real code, validated by TLC
    tr = ctx.record("parse-random", "parse", ["-n", 40000 if th else 3000, "-maxlen", 120 if th else 60])
    ctx.validate("parse-random-validate", "trace/Trace_Parse.tla", "trace/Trace_Parse.cfg", tr, "parse", shards=14 if th else 3)
    ctx.selftest_binding("parse-random", "trace/Trace_Parse.tla", "trace/Trace_Parse.cfg", tr, "parse", corrupt_out)
    big = ctx.record("parse-big", "big", ["-sizes", "1024,8192,65536"], timeout=1500)
    ctx.validate("parse-big-validate", "trace/Trace_Big.tla", "trace/Trace_Big.cfg", big, "big")
    ctx.selftest_binding("parse-big", "trace/Trace_Big.tla", "trace/Trace_Big.cfg", big, "big", corrupt_big)
    return ctx.finish(
        rule="every token sequence of length <= %d over the full token alphabet (all kinds the scanner produces + 4 line-break "
             "variants) and every text of <= %d units over the scanner alphabet (ASCII, multi-byte, U+2028, invalid byte), "
             "parsed by the real parser under recover and a watchdog; plus seeded random / mutated texts validated by Trace_Parse and 28 "
             "pathological shapes at 1, 8 and 64 KiB validated by Trace_Big (outcome, tiling, scanner steps per token, wall-clock net); "
             "non-trivial = accepted inputs" % ((4, 5) if th else (3, 4)),
        assumptions=["hang = a single parse exceeding 20 s"])
