"""C01 Parsing is total: a tree or an error, never a crash, hang or half-built tree.
Model: MC_Grammar over the full token alphabet (ParseTotal, GrammarSound), MC_Lexer over the scanner
alphabet (LexProgress, LexTiling).  Replay: the real parser under recover + watchdog; an accepted
tree must equal the specification's complete tree (a missing operand, empty name or absent list
shows up as a mismatch)."""

def run(ctx):
    th = ctx.thorough
    r = ctx.tlc("grammar-full", "mc/MC_Grammar.tla", "mc/MC_Grammar_full.cfg", {"K": 4 if th else 3},
                min_states=90000, timeout=3400, heap="14g")
    ctx.replay("grammar-full-replay", "grammar", r["dump"], min_cases=90000)
    r = ctx.tlc("lexer-scan", "mc/MC_Lexer.tla", "mc/MC_Lexer_scan.cfg", {"K": 5 if th else 4}, min_states=160000,
                timeout=3400, heap="14g")
    ctx.replay("lexer-scan-parse", "lexparse", r["dump"], min_cases=160000)
    return ctx.finish(
        rule="every token sequence of length <= %d over the full token alphabet (all kinds the scanner produces + 4 line-break "
             "variants) and every text of <= %d units over the scanner alphabet (ASCII, multi-byte, U+2028, invalid byte), "
             "parsed by the real parser under recover and a watchdog; non-trivial = accepted inputs" % ((4, 5) if th else (3, 4)),
        assumptions=["hang = a single parse exceeding 20 s"])
