"""C04 Decimal arithmetic is exact; nothing passes through binary floating point.
Model: MC_Eval_c04 - FDecimal (exact digit-sequence arithmetic, half-even rounding to 34 digits) evaluated by TLC on all pairs of
a 24-value grid under + - *, on short divisors under / and %, on chains, and on Go float64 / int / int32 / int64 / decimal data;
invariant OracleSane checks the oracle's own algebra (commutativity, a-a=0, the quotient passes the multiplication bracket, the
remainder is smaller than the divisor, has the dividend's sign and leaves a multiple of the divisor).
Trace validation (Trace_Expr): seeded random operand pairs of 1-34 digits, exponents +-30, chains of up to 4 operators, random
float64 / int64 data; sums, differences and products are computed by the specification, quotients and remainders are checked
by multiplication (DIsQuo; a = w*b + r with a logged integer witness w); the float64 handed back must be the nearest one in
the stated domain and within 4 ulp otherwise (exact integer comparison on mantissa * 2^E).
Trace_Nodes: random arithmetic programs recorded through the resolve hook, every node validated from its children's observed values."""
import json
from checks.evalcheck import run_family

def corrupt(lines):
    for i, l in enumerate(lines):
        e = json.loads(l)
        if e["out"][0] == "ok" and e["out"][1][0] == "num" and len(e["out"][1][2]) > 3:
            d = e["out"][1][2]
            d[-1] = (d[-1] % 9) + 1 if d[-1] != (d[-1] % 9) + 1 else 2
            return i, json.dumps(e)
    raise RuntimeError("nothing to corrupt")

def run(ctx):
    th = ctx.thorough
    # the oracle checks itself first: fast product = schoolbook product, ring laws, division and remainder identities
    ctx.tlc("decimal-oracle", "mc/MC_Decimal.tla", "mc/MC_Decimal.cfg", dump=False, min_states=300, timeout=1800)
    run_family(ctx, "c04", 2300)
    tr = ctx.record("arith-random", "expr", ["-mode", "arith", "-n", 24000 if th else 700], timeout=1500)
    ctx.validate("arith-random-validate", "trace/Trace_Expr.tla", "trace/Trace_Expr.cfg", tr, "expr", shards=16 if th else 4, timeout=3400)
    ctx.selftest_binding("arith-random", "trace/Trace_Expr.tla", "trace/Trace_Expr.cfg", tr, "expr", corrupt)
    # short decimals: the float64 handed back is the nearest one (a conversion that rounds twice fails on about one value in 2^11)
    sh = ctx.record("arith-short", "expr", ["-mode", "short", "-n", 200000 if th else 16000, "-seed", ctx.seed * 100 + 41])
    ctx.validate("arith-short-validate", "trace/Trace_Expr.tla", "trace/Trace_Expr.cfg", sh, "expr", shards=16 if th else 8, timeout=3400)
    tr2 = ctx.record("arith-data", "expr", ["-mode", "data", "-n", 8000 if th else 600])
    ctx.validate("arith-data-validate", "trace/Trace_Expr.tla", "trace/Trace_Expr.cfg", tr2, "expr", shards=8 if th else 2, timeout=3400)
    # "decimal literals enter the computation with exactly the value they print as": seeded random spellings (digit separators,
    # fractions, exponents, long parts) lexed by the specification from the bytes and compared with the value the real code gives them
    lt = ctx.record("literals-random", "parse", ["-mode", "numbers", "-n", 40000 if th else 3000, "-seed", ctx.seed * 100 + 44])
    ctx.validate("literals-random-validate", "trace/Trace_Parse.tla", "trace/Trace_Parse.cfg", lt, "parse", shards=14 if th else 3)
    # random arithmetic programs (literals of up to 34 digits, exponents to +-40, nested + - * / %, numeric builtins, locals),
    # every node judged on its own from the values its children were observed to have: intermediate results, not only roots
    nd = ctx.record("nodes-arith", "nodes", ["-n", 8000 if th else 500, "-profile", "arith", "-seed", ctx.seed * 100 + 54])
    ctx.validate("nodes-arith-validate", "trace/Trace_Nodes.tla", "trace/Trace_Nodes.cfg", nd, "nodes", shards=16 if th else 4, timeout=3400, cut="start")
    return ctx.finish(
        rule="all pairs of the decimal grid x {+,-,*}, short divisors x {/,%}, chains, data-entry comparisons (replayed); seeded random "
             "operand pairs / chains / float64 and int64 data recorded from the real evaluator and validated event by event; "
             "non-trivial = all (every case has a pinned numeric result)",
        assumptions=["representation (trailing zeros, sign of zero) is not compared", "results on non-finite operands and division by zero are unpinned",
                     "the remainder's integer witness is computed by the driver with math/big and verified by TLC through a = w*b + r"])
