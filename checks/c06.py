"""C06 One notion of truthiness drives every selection operator.
Model: MC_Eval_c06 - 32 condition expressions (null, booleans, numbers incl. 0, -0, 0.0, NaN, +-Inf, strings
incl. '' and '0', arrays, maps, time-less data kinds, functions, typed nil, typed-map zero entries) x branch
expressions with observable side effects ($x = .., rec(..)) under !!, !, ?:, &&, ||, ??, alone and nested.
Invariants FalsyExactly and OnlySelectedBranch are checked on the specification; every case is replayed."""
from checks.evalcheck import run_family

import json

def corrupt_nodes(lines):
    # claim that a conditional evaluated its other branch
    for i, l in enumerate(lines):
        e = json.loads(l)
        if e.get("kind") == "Cond" and len(e["kids"]) == 2 and e["kids"][1][0] in (2, 3):
            e["kids"][1][0] = 5 - e["kids"][1][0]
            return i, json.dumps(e)
    raise RuntimeError("no conditional node")

def run(ctx):
    run_family(ctx, "c06", 12000)
    # random deeper programs over every operator, builtin and value kind, recorded from the real evaluator and validated by Trace_Expr
    tr = ctx.record("prog-random", "expr", ["-mode", "prog", "-n", 40000 if ctx.thorough else 3000, "-seed", ctx.seed * 100 + 6])
    ctx.validate("prog-random-validate", "trace/Trace_Expr.tla", "trace/Trace_Expr.cfg", tr, "expr", shards=14 if ctx.thorough else 2)
    # per-node trace validation: every evaluated node of random programs judged locally (evaluation order, selected branch only,
    # operator cells, member access, calls) given its children's observed results
    nd = ctx.record("nodes-random", "nodes", ["-n", 6000 if ctx.thorough else 600, "-seed", ctx.seed * 100 + 56])
    ctx.validate("nodes-random-validate", "trace/Trace_Nodes.tla", "trace/Trace_Nodes.cfg", nd, "nodes", shards=14 if ctx.thorough else 2, cut="start")
    ctx.selftest_binding("nodes-random", "trace/Trace_Nodes.tla", "trace/Trace_Nodes.cfg", nd, "nodes", corrupt_nodes)
    return ctx.finish(
        rule="every (condition expression, branch expressions, operator) combination of the family, evaluated by the real "
             "evaluator with recording host functions; compared: value (exact decimal / bytes / kind), error, the data map "
             "afterwards (locals), the host-call log; plus seeded random programs (depth <= 4, all operators / builtins / value kinds) validated by the trace specification; non-trivial = cases whose outcome the specification pins",
        assumptions=["the unselected operand of && || ?? may or may not be evaluated: cases where that is observable are unpinned",
                     "!x on strings, arrays, maps and typed nil pointers is unpinned"])
