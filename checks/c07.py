"""C07 Locals bind and sequence left to right; caller data is never modified.
Model: MC_Eval_c07 - formulas mixing assignments, reads, commas, arrays, calls and conditionals over $a, $b, x, y.k against
two data maps holding caller-owned decimals; invariant Frame on the specification (evaluation only adds or changes "$"
entries).  Replay compares value, host-call log (left-to-right order) and the data map afterwards, and the driver takes a
deep snapshot (pointer identities, digits of every reachable number) of the caller's map before and after.
MC_Runner (one runner): every history of <= 4 operations, so that bindings are observed by later evaluations of the same runner."""
from checks.evalcheck import run_family

def run(ctx):
    run_family(ctx, "c07", 16000)
    # random deeper programs over every operator, builtin and value kind, recorded from the real evaluator and validated by Trace_Expr
    tr = ctx.record("prog-random", "expr", ["-mode", "prog", "-n", 40000 if ctx.thorough else 3000, "-seed", ctx.seed * 100 + 7])
    ctx.validate("prog-random-validate", "trace/Trace_Expr.tla", "trace/Trace_Expr.cfg", tr, "expr", shards=14 if ctx.thorough else 2)
    # per-node trace validation: every evaluated node of random programs judged locally (evaluation order, selected branch only,
    # operator cells, member access, calls) given its children's observed results
    nd = ctx.record("nodes-random", "nodes", ["-n", 6000 if ctx.thorough else 600, "-seed", ctx.seed * 100 + 57])
    ctx.validate("nodes-random-validate", "trace/Trace_Nodes.tla", "trace/Trace_Nodes.cfg", nd, "nodes", shards=14 if ctx.thorough else 2, cut="start")
    # "a later evaluation by the same runner sees the binding": every history of one runner (with and without a data map,
    # bindings made before a failure, arrays rebound to arrays) over the runner model, replayed step by step
    r = ctx.tlc("runner-1x", "mc/MC_Runner.tla", "mc/MC_Runner.cfg", {"N": 5 if ctx.thorough else 4, "Runners": '{"r1"}'}, min_states=60000, timeout=3400, heap="14g")
    ctx.replay("runner-1x-replay", "runner", r["dump"], min_cases=60000)
    return ctx.finish(
        rule="every formula of the family x 2 data maps evaluated by the real evaluator; compared: value, error, host-call log, "
             "data map afterwards; deep snapshot of the caller's data before/after; plus seeded random programs (depth <= 4, all operators / builtins / value kinds) validated by the trace specification; non-trivial = pinned cases",
        assumptions=["whether the right-hand side of an invalid assignment runs is unpinned when observable"])
