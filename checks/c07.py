"""C07 Locals bind and sequence left to right; caller data is never modified.
Model: MC_Eval_c07 - formulas mixing assignments, reads, commas, arrays, calls and conditionals over $a, $b, x, y.k against
two data maps holding caller-owned decimals; invariant Frame on the specification (evaluation only adds or changes "$"
entries).  Replay compares value, host-call log (left-to-right order) and the data map afterwards, and the driver takes a
deep snapshot (pointer identities, digits of every reachable number) of the caller's map before and after."""
from checks.evalcheck import run_family

def run(ctx):
    run_family(ctx, "c07", 16000)
    return ctx.finish(
        rule="every formula of the family x 2 data maps evaluated by the real evaluator; compared: value, error, host-call log, "
             "data map afterwards; deep snapshot of the caller's data before/after; non-trivial = pinned cases",
        assumptions=["whether the right-hand side of an invalid assignment runs is unpinned when observable"])
