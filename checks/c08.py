"""C08 Evaluation is a pure function of formula text and data.
Model: MC_Purity - histories over parse(i) / eval(i, j) in a fresh runner / fields(i) for a pool of 6 formulas (assignments,
conditionals, host calls, a rejected text) x 3 data maps; the model has no state through which operations could interact and
the invariant Functional says so; every history up to N is executed in one process with trees re-used across steps and every
tree dumped (ids, parents, ranges, line starts, diagnostics) before and after each evaluation / analysis.
Trace validation (Trace_Purity): long random histories interleaving the targets with 28 unrelated formulas (all builtin
families, errors, rejected texts); the history variable `seen` maps every (operation, formula, data) key to the result
observed first; every later observation must equal it (value, float64, error text, locals) and no tree may change."""
import json

def corrupt(lines):
    seen = {}
    for i, l in enumerate(lines):
        e = json.loads(l)
        if e["key"] in seen and e["key"].startswith("eval"):
            e["res"] = ["ok", ["num", False, [4, 2], 0], ["num", False, [4, 2], 0], []]
            return i, json.dumps(e)
        seen[e["key"]] = 1
    raise RuntimeError("no repeated key")

def run(ctx):
    th = ctx.thorough
    r = ctx.tlc("purity", "mc/MC_Purity.tla", "mc/MC_Purity.cfg", {"N": 4 if th else 3}, min_states=27000, timeout=3400, heap="14g")
    ctx.replay("purity-replay", "purity", r["dump"], min_cases=27000)
    tr = ctx.record("purity-random", "purity", ["-n", 100000 if th else 12000])
    ctx.validate("purity-random-validate", "trace/Trace_Purity.tla", "trace/Trace_Purity.cfg", tr, "purity")
    # the corrupted event must be judged against the whole history before it: no windowing
    lines = [l for l in open(tr, encoding="utf-8").read().split("\n") if l]
    idx, new = corrupt(lines)
    ctx.selftest_binding("purity-random", "trace/Trace_Purity.tla", "trace/Trace_Purity.cfg", tr, "purity",
                         lambda ls: (0, ls[0]) if False else (idx, new))
    return ctx.finish(
        rule="every history of <= %d operations over {parse, eval in a fresh runner, fields} x 6 formulas x 3 data maps, executed in one "
             "process with tree re-use and tree dumps; one seeded random history of %d operations validated by the trace specification "
             "(first-observation map); non-trivial = histories of length >= 2" % (4 if th else 3, 200000 if th else 20000),
        assumptions=["now and toDay are excluded (the stated exceptions)"])
