"""C12 Numeric literals denote exactly the decimal number written.
Model: MC_Lexer over the literal alphabet {0 1 9 . e E + - _ a x} embedded as [S]: FLexer's numeric
automaton + FDecimal.FromLiteral give each literal its exact decimal <<neg, digits, exp>>; malformed
spellings are lexical errors.  Replay: the real parser must reject exactly the malformed ones and the
number the real evaluator gives each literal node must be the specification's."""

def run(ctx):
    k = 6 if ctx.thorough else 5
    r = ctx.tlc("literals", "mc/MC_Lexer.tla", "mc/MC_Lexer_num.cfg", {"K": k}, min_states=170000, timeout=3400, heap="14g")
    ctx.replay("literals-parse-eval", "lexparse", r["dump"], min_cases=170000)
    ctx.replay("literals-scan", "lex", r["dump"], min_cases=170000)
    # long literals: ten-digit blocks, up to 50 significant digits, fractions, exponents, separators
    r = ctx.tlc("long-literals", "mc/MC_Lexer.tla", "mc/MC_Lexer_long.cfg", {"K": 6 if ctx.thorough else 5}, min_states=19000, timeout=3400, heap="14g")
    ctx.replay("long-literals-parse-eval", "lexparse", r["dump"], min_cases=19000)
    # random spellings: integer / fraction / exponent parts of 0-40 digits, separators anywhere, 12 syntactic positions
    tr = ctx.record("literals-random", "parse", ["-mode", "numbers", "-n", 60000 if ctx.thorough else 4000])
    ctx.validate("literals-random-validate", "trace/Trace_Parse.tla", "trace/Trace_Parse.cfg", tr, "parse", shards=14 if ctx.thorough else 3)
    return ctx.finish(
        rule="every string S of length <= %d over {0,1,9,.,e,E,+,-,_,a,x} embedded as [S]; the tree is compared with "
             "each literal projected to the exact decimal the real evaluator assigns to it; plus seeded random spellings with parts of up to 40 digits validated by Trace_Parse; non-trivial = accepted texts" % k,
        assumptions=["exponents stay within the decimal library's range in this enumeration"])
