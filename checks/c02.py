"""C02 The tree follows the grammar.
Model: MC_Grammar (FGrammar.ParseTokens vs WF/Unparse, soundness invariant in every state).
Replay: every enumerated token sequence is rendered and parsed by the real parser; the
projected tree (or the rejection) must equal the specification's."""

def run(ctx):
    k = 5 if ctx.thorough else 4
    r = ctx.tlc("grammar-class", "mc/MC_Grammar.tla", "mc/MC_Grammar_class.cfg", {"K": k},
                min_states=30000, timeout=3000, heap="12g")
    ctx.replay("grammar-class-replay", "grammar", r["dump"], min_cases=30000)
    return ctx.finish(
        rule="every token sequence of length <= %d over one representative per parser-equivalence class "
             "(27 classes + 4 line-break variants), rendered with single spaces / line feeds and parsed by the real "
             "parser; non-trivial = sequences the specification accepts (a tree is compared)" % k,
        assumptions=["one representative lexeme per token class; class partition per DESIGN.md appendix A",
                     "keyword-as-member-name and f(...) are unpinned: only totality is compared there"])
