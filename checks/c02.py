"""C02 The tree follows the grammar.
Model: MC_Grammar (FGrammar.ParseTokens vs WF/Unparse, soundness invariant in every state).
Replay: every enumerated token sequence is rendered and parsed by the real parser; the
projected tree (or the rejection) must equal the specification's."""

def run(ctx):
    k = 5 if ctx.thorough else 4
    r = ctx.tlc("grammar-class", "mc/MC_Grammar.tla", "mc/MC_Grammar_class.cfg", {"K": k},
                min_states=30000, timeout=3000, heap="12g")
    ctx.replay("grammar-class-replay", "grammar", r["dump"], min_cases=30000)
    # the ladder on operator chains: every pair and triple of binary operators incl. "=" and ","
    r = ctx.tlc("ladder", "mc/MC_Ladder.tla", "mc/MC_Ladder.cfg", {"Triples": "TRUE"}, min_states=9000)
    ctx.replay("ladder-replay", "grammar", r["dump"], min_cases=9000)
    # postfix chains (names, member access, calls, line breaks) deeper than the class alphabet reaches
    r = ctx.tlc("postfix", "mc/MC_Grammar.tla", "mc/MC_Grammar_postfix.cfg", {"K": 8 if ctx.thorough else 7},
                min_states=900000, timeout=3000, heap="12g")
    ctx.replay("postfix-replay", "grammar", r["dump"], min_cases=900000)
    return ctx.finish(
        rule="every token sequence of length <= %d over one representative per parser-equivalence class "
             "(27 classes + 4 line-break variants), every a op b op c op d over the 21 operators, every postfix chain of <= 7 tokens, rendered with single spaces / line feeds and parsed by the real "
             "parser; non-trivial = sequences the specification accepts (a tree is compared)" % k,
        assumptions=["one representative lexeme per token class; class partition per DESIGN.md appendix A",
                     "keyword-as-member-name and f(...) are unpinned: only totality is compared there"])
