"""C14 Tokens tile the input; longest match; spacing is insignificant.
Model: MC_Lexer (FLexer.LexAll on every text over several unit alphabets; invariants LexTiling,
LexLongest, LexProgress in every state), MC_Chars (class of every critical code point).
Replay: every text is scanned by the real Scanner through its public API (token kinds, extents,
string/identifier values, line-break flags, error reports) and parsed by the real parser."""

def run(ctx):
    th = ctx.thorough
    for name, cfg, k, mn in [("ops", "mc/MC_Lexer_ops.cfg", 6 if th else 4, 40000),
                             ("scan", "mc/MC_Lexer_scan.cfg", 5 if th else 4, 160000),
                             ("word", "mc/MC_Lexer_word.cfg", 6 if th else 5, 100000)]:
        r = ctx.tlc("lexer-" + name, "mc/MC_Lexer.tla", cfg, {"K": k}, min_states=mn, timeout=3400, heap="14g")
        ctx.replay("lexer-%s-scan" % name, "lex", r["dump"], min_cases=mn)
        ctx.replay("lexer-%s-parse" % name, "lexparse", r["dump"], min_cases=mn)
    # a line break may not precede ".", "!." or a call's "(": postfix chains with line-break variants (shared with C02)
    r = ctx.tlc("postfix", "mc/MC_Grammar.tla", "mc/MC_Grammar_postfix.cfg", {"K": 8 if th else 7}, min_states=900000, timeout=3000, heap="12g")
    ctx.replay("postfix-replay", "grammar", r["dump"], min_cases=900000)
    # line breaks at every place of 17 canonical sentences (every single-token near miss, among them every token replaced by its
    # line-break variant): the parse may change only where the specification says so
    r = ctx.tlc("near-miss", "mc/MC_NearMiss.tla", "mc/MC_NearMiss.cfg", min_states=6000, timeout=1800)
    ctx.replay("near-miss-replay", "grammar", r["dump"], min_cases=6000)
    r = ctx.tlc("chars", "mc/MC_Chars.tla", "mc/MC_Chars.cfg", min_states=1000, workers=4)
    ctx.replay("chars-all-codepoints", "chars", r["dump"], min_cases=1000)
    tr = ctx.record("scan-random", "parse", ["-n", 40000 if th else 3000, "-maxlen", 120 if th else 60], env_extra=None)
    ctx.validate("scan-random-validate", "trace/Trace_Parse.tla", "trace/Trace_Parse.cfg", tr, "parse", shards=14 if th else 3)
    return ctx.finish(
        rule="every concatenation of <= k units over three unit alphabets (operator characters k<=%d, scanner alphabet "
             "incl. multi-byte / U+2028 / invalid byte k<=%d, keyword letters k<=%d) scanned token by token and parsed; "
             "all 1,114,112 code points classified against the class intervals computed by TLC; seeded random texts whose real token "
             "lists are validated by Trace_Parse (tiling, tokens = NextToken); non-trivial = texts with "
             "at least one token before EOF" % ((6, 5, 6) if th else (4, 4, 5)),
        assumptions=["ES5Tables.tla is a frozen transcription of the ES5 identifier tables",
                     "the text of a number token's value is not compared at scanner level (its number is compared through the parser)",
                     "malformed lexemes: only 'reported + rejected' and the tiling arithmetic are pinned, not the extent"])
