"""C13 String literals round-trip every text through quoting and escaping.
Model: MC_Strings - a reference escaper in TLA+ (every character may be written verbatim, by its simple escape, as \\xHH or
\\uHHHH in either hex case) over a 20-character alphabet (ASCII, both quotes, backslash, control characters, letters that
collide with escape letters, multi-byte, U+2028, U+0085, an invalid byte), both quote styles, closed and left open; the theorem
RoundTrip (FLexer decodes the literal to exactly the text's bytes; open literals are lexical errors) is an invariant.
Replay: the real scanner's token value, the real parser's verdict and the text the real evaluator gives the literal."""

def run(ctx):
    k = 3
    r = ctx.tlc("strings", "mc/MC_Strings.tla", "mc/MC_Strings.cfg", {"K": k}, min_states=24000, timeout=3400, heap="14g")
    ctx.replay("strings-scan", "lex", r["dump"], min_cases=24000)
    ctx.replay("strings-parse-eval", "lexparse", r["dump"], min_cases=24000)
    return ctx.finish(
        rule="every text of <= %d characters over the 20-character alphabet x every vector of equivalent escape forms x both "
             "quote styles x {closed, left open}; compared: token kind/extent/decoded bytes, rejection, evaluated text; "
             "non-trivial = closed literals without a raw line break" % k,
        assumptions=["malformed escapes (\\\\xZ, short \\\\u12), unknown escapes (\\\\q) and backslash-newline are unpinned"])
