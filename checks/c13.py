"""C13 String literals round-trip every text through quoting and escaping.
Model: MC_Strings - a reference escaper in TLA+ (every character may be written verbatim, by its simple escape, as \\xHH or
\\uHHHH in either hex case) over a 20-character alphabet (ASCII, both quotes, backslash, control characters, letters that
collide with escape letters, multi-byte, U+2028, U+0085, an invalid byte), both quote styles, closed and left open; the theorem
RoundTrip (FLexer decodes the literal to exactly the text's bytes; open literals are lexical errors) is an invariant.
Replay: the real scanner's token value, the real parser's verdict and the text the real evaluator gives the literal."""

def run(ctx):
    k = 3
    r = ctx.tlc("strings", "mc/MC_Strings.tla", "mc/MC_Strings.cfg", {"K": k}, min_states=24000, timeout=3400, heap="14g")
    ctx.replay("strings-scan", "lex", r["dump"], min_cases=24000)
    ctx.replay("strings-parse-eval", "lexparse", r["dump"], min_cases=24000)
    # random texts up to 200 bytes written by a reference escaper with random equivalent forms (also astral characters)
    tr = ctx.record("strings-random", "parse", ["-mode", "strings", "-maxlen", 200 if ctx.thorough else 80, "-n", 30000 if ctx.thorough else 2500])
    ctx.validate("strings-random-validate", "trace/Trace_Parse.tla", "trace/Trace_Parse.cfg", tr, "parse", shards=14 if ctx.thorough else 4, timeout=3400)
    return ctx.finish(
        rule="every text of <= %d characters over the 20-character alphabet x every vector of equivalent escape forms x both "
             "quote styles x {closed, left open}; compared: token kind/extent/decoded bytes, rejection, evaluated text; "
             "plus seeded random texts escaped with random equivalent forms and validated by Trace_Parse; non-trivial = closed literals without a raw line break" % k,
        assumptions=["malformed escapes (\\\\xZ, short \\\\u12), unknown escapes (\\\\q) and backslash-newline are unpinned"])
