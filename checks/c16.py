"""C16 Names and member access read the caller's data, null-safely.
Model: MC_Eval_c16 - 15 roots (nested map, typed map with zero entries, struct, typed nil, nil, undefined, scalars, names that
collide with builtins, `this`) x all dotted paths of depth <= 2 (depth 3 below map/struct/this/nil roots) over present and
absent keys with . and !. at every position."""
from checks.evalcheck import run_family

def run(ctx):
    run_family(ctx, "c16", 40000, timeout=3400)
    # random deeper programs over every operator, builtin and value kind, recorded from the real evaluator and validated by Trace_Expr
    tr = ctx.record("prog-random", "expr", ["-mode", "prog", "-n", 30000 if ctx.thorough else 2000, "-seed", ctx.seed * 100 + 16])
    ctx.validate("prog-random-validate", "trace/Trace_Expr.tla", "trace/Trace_Expr.cfg", tr, "expr", shards=14 if ctx.thorough else 2)
    # the same kind of programs judged node by node (Trace_Nodes): every operator, member access and call on the values its
    # operands were observed to have, so a cell is checked wherever it occurs, not only where the whole program is pinned
    nd = ctx.record("nodes-random", "nodes", ["-n", 8000 if ctx.thorough else 700, "-seed", ctx.seed * 100 + 66])
    ctx.validate("nodes-random-validate", "trace/Trace_Nodes.tla", "trace/Trace_Nodes.cfg", nd, "nodes", shards=14 if ctx.thorough else 2, cut="start")
    return ctx.finish(
        rule="every dotted path of the family evaluated against the data map by the real evaluator; compared: value (Go ints and "
             "floats as exact numbers, typed nil as null), error for !. on null and for a missing struct field; plus seeded random programs (depth <= 4, all operators / builtins / value kinds) validated by the trace specification; non-trivial = pinned cases",
        assumptions=["member access on scalars, arrays, functions, times and unexported fields is unpinned (total, no panic)"])
