"""C16 Names and member access read the caller's data, null-safely.
Model: MC_Eval_c16 - 15 roots (nested map, typed map with zero entries, struct, typed nil, nil, undefined, scalars, names that
collide with builtins, `this`) x all dotted paths of depth <= 2 (depth 3 below map/struct/this/nil roots) over present and
absent keys with . and !. at every position."""
from checks.evalcheck import run_family

def run(ctx):
    run_family(ctx, "c16", 40000, timeout=3400)
    return ctx.finish(
        rule="every dotted path of the family evaluated against the data map by the real evaluator; compared: value (Go ints and "
             "floats as exact numbers, typed nil as null), error for !. on null and for a missing struct field; non-trivial = pinned cases",
        assumptions=["member access on scalars, arrays, functions, times and unexported fields is unpinned (total, no panic)"])
